"""C03 / C04: the line buffer. Stream `linebuf`."""
import itertools
import random

from common import *
from p_histfile import enc, dec
import p_seg

SMALL = [0x61, 0x5f, 0x20, 0x2c, 0x0a, 0xe9, 0x301, 0x65e5]
BIG = SMALL + [0x62, 0x41, 0x39, 0x09, 0x3000, 0x1f600, 0x200d, 0x1f1e6, 0x1f1e7, 0xdf, 0x1c6, 0x2e, 0x28, 0xfb01, 0x130, 0x149]
COUNTS = [0, 1, 1, 1, 2, 2, 3, 4, 65535]
WORDS = "bev"
ATS = "sba"


def utf8(s):
    return "".join(map(chr, s)).encode("utf-8")


def blen(s):
    return len(utf8(s))


def boundaries(s):
    out, k = [0], 0
    for c in s:
        k += len(chr(c).encode("utf-8"))
        out.append(k)
    return out


def rand_cs(rng, alpha):
    return "%s:%x" % (rng.choice("fFbB"), rng.choice(alpha))


def rand_mvt(rng, alpha):
    k = rng.choice(["wl", "bol", "eol", "bw", "fw", "cs", "vfp", "bc", "fc", "lu", "ld", "wb", "bob", "eob",
                    "bw", "fw", "cs", "lu", "ld"])
    n = rng.choice(COUNTS)
    if k == "bw":
        return "bw/%d/%s" % (n, rng.choice(WORDS))
    if k == "fw":
        return "fw/%d/%s/%s" % (n, rng.choice(ATS), rng.choice(WORDS))
    if k == "cs":
        return "cs/%d/%s" % (n, rand_cs(rng, alpha))
    if k in ("bc", "fc", "lu", "ld"):
        return "%s/%d" % (k, n)
    return k


MOTION_OPS = {"mb", "mf", "bs0", "be", "home", "end", "eoi", "mpw", "mnw", "mto", "copy", "setpos", "npos"}


def all_ops(rng, alpha, s_len_hint=4):
    """one instance of every op kind with random parameters"""
    n = lambda: rng.choice(COUNTS)
    ch = lambda: rng.choice(alpha)
    st = lambda: enc([ch() for _ in range(rng.randint(1, 3))])
    ops = [
        "ins %x %d" % (ch() if rng.random() < 0.9 else 0x61, rng.choice([0, 1, 1, 1, 2, 3])),
        "yank %s %d" % (st(), rng.choice([0, 1, 1, 2, 3])),
        # yank_pop with ANY size: larger than the cursor offset, inside a character, zero (LineBuffer's API is public)
        "yankpop %d %s" % (rng.choice([0, 1, 1, 2, 3, 4, 5, 7, 9, 65535]), st()),
        "mb %d" % n(), "mf %d" % n(), "bs0", "be", "home", "end", "eoi",
        "del %d" % n(), "bsp %d" % n(), "kl", "kb", "dl", "db", "tc",
        "mpw %s %d" % (rng.choice(WORDS), n()), "dpw %s %d" % (rng.choice(WORDS), n()),
        "mnw %s %s %d" % (rng.choice(ATS), rng.choice(WORDS), n()),
        "mto %s %d" % (rand_cs(rng, alpha), n()),
        "dw %s %s %d" % (rng.choice(ATS), rng.choice(WORDS), n()),
        "dto %s %d" % (rand_cs(rng, alpha), n()),
        "ew %s" % rng.choice("clu"), "tw %d" % rng.choice([0, 1, 1, 2, 3]),
        "copy " + rand_mvt(rng, alpha), "kill " + rand_mvt(rng, alpha),
        "indent %s %d %d" % (rand_mvt(rng, alpha), rng.choice([0, 1, 2, 2, 3, 4, 33, 70]), rng.randint(0, 1)),
        "npos %d" % n(),
    ]
    return ops


def lb_cases(tier, seed):
    rng = random.Random(seed * 97 + 13)
    cases = []
    # (1) small-exhaustive: every string of <= L chars over SMALL, every boundary cursor, one op of every kind
    L = 4 if tier == "thorough" else 3
    strs = [[]]
    for k in range(1, L + 1):
        strs += [list(t) for t in itertools.product(SMALL, repeat=k)]
    if tier != "thorough":
        # all strings up to 3 (585) are kept; length-4 strings are sampled
        strs += [[rng.choice(SMALL) for _ in range(4)] for _ in range(400)]
    for s in strs:
        for p in boundaries(s):
            ops = all_ops(rng, SMALL)
            if tier != "thorough":
                ops = rng.sample(ops, 6)
            for op in ops:
                cases.append("4096 %s %d ; %s" % (enc(s), p, op))
    # (2) random multi-line buffers with op sequences (state carried across ops)
    n = 20000 if tier == "thorough" else 2500
    for _ in range(n):
        alpha = rng.choice([SMALL, BIG, BIG])
        ln = rng.choice([3, 6, 10, 20, 60, 200] if tier == "thorough" else [3, 6, 10, 20, 40])
        s = []
        for _ in range(rng.randint(0, ln)):
            r = rng.random()
            if r > 0.97:
                s += [0x0d, 0x0a] if r > 0.98 else [0x0d]      # CR LF is ONE cluster of two one-byte characters
                continue
            s.append(0x0a if r < 0.08 else 0x20 if r < 0.25 else rng.choice(alpha))
        p = rng.choice(boundaries(s))
        ops = []
        cur_len_bound = blen(s)
        for _ in range(rng.randint(1, 7)):
            op = rng.choice(all_ops(rng, alpha))
            ops.append(op)
        # raw primitives with valid arguments can only be generated against a known text: put them first
        if rng.random() < 0.3:
            bs = boundaries(s)
            a, b = sorted([rng.choice(bs), rng.choice(bs)])
            prim = rng.choice(["repl %d %d %s" % (a, b, enc([rng.choice(alpha) for _ in range(rng.randint(0, 3))])),
                               # insert_str does not touch the cursor: only at or after it (its precondition)
                               "istr %d %s" % (max([x for x in bs if x >= p] or [p]) if rng.random() < 0.5 else p,
                                               enc([rng.choice(alpha) for _ in range(rng.randint(0, 3))])),
                               "drange %d %d" % (a, b), "setpos %d" % a,
                               "upd %s %d" % (enc(s[:3]), rng.choice(boundaries(s[:3])))])
            ops.insert(0, prim)
        cases.append("4096 %s %d ; %s" % (enc(s), p, " ; ".join(ops)))
    # (2b) character searches for characters of every UTF-8 length that DO occur before and after the cursor, as motion, copy,
    # kill and delete (deterministic: not left to the sampling above)
    for c in (0x61, 0xe9, 0x65e5, 0x1f600):
        s = [0x78, c, 0x20, c, 0x79, c]
        for p in boundaries(s):
            for k in "fFbB":
                for cnt in (1, 2):
                    cs = "%s:%x" % (k, c)
                    cases.append("4096 %s %d ; copy cs/%d/%s ; kill cs/%d/%s" % (enc(s), p, cnt, cs, cnt, cs))
                    cases.append("4096 %s %d ; mto %s %d ; dto %s %d" % (enc(s), p, cs, cnt, cs, cnt))
    # (3) fixed capacity: insert / yank / update around the limit
    for _ in range(n // 4):
        cap = rng.choice([8, 9, 10, 11, 12, 16])
        s = [rng.choice([0x61, 0xe9, 0x65e5, 0x1f600]) for _ in range(rng.randint(0, 6))]
        while blen(s) > cap:
            s.pop()
        p = rng.choice(boundaries(s))
        ops = []
        for _ in range(rng.randint(1, 5)):
            r = rng.random()
            if r < 0.4:
                ops.append("ins %x %d" % (rng.choice([0x61, 0xe9, 0x65e5, 0x1f600]), rng.choice([1, 1, 2, 3])))
            elif r < 0.7:
                ops.append("yank %s %d" % (enc([rng.choice([0x61, 0xe9, 0x65e5]) for _ in range(rng.randint(1, 3))]),
                                           rng.choice([1, 1, 2])))
            else:
                t = [rng.choice([0x61, 0xe9, 0x65e5, 0x1f600]) for _ in range(rng.randint(0, 9))]
                ops.append("upd %s %d" % (enc(t), rng.choice(boundaries(t))))
        cases.append("%d %s %d ; %s" % (cap, enc(s), p, " ; ".join(ops)))
    return cases


def parse_step(tok):
    f = dict(x.split("=", 1) for x in tok.split())
    bad = f["p"].endswith("!")
    return f["r"], dec(f["b"]), int(f["p"].rstrip("!")), bad, ([] if f["e"] == "_" else f["e"].split(","))


def replay(old, events):
    """Apply the listener notifications to the old text (bytes); None if one does not fit."""
    t = utf8(old)
    for e in events:
        p = e.split(":")
        if p[0] in ("sk", "ek"):
            continue
        idx = int(p[1])
        if p[0] == "ic":
            ins = chr(int(p[2], 16)).encode("utf-8")
            if idx > len(t):
                return None
            t = t[:idx] + ins + t[idx:]
        elif p[0] == "is":
            ins = utf8(dec(p[2]))
            if idx > len(t):
                return None
            t = t[:idx] + ins + t[idx:]
        elif p[0] == "d":
            d = utf8(dec(p[2]))
            if t[idx:idx + len(d)] != d:
                return None
            t = t[:idx] + t[idx + len(d):]
        elif p[0] == "rp":
            o, nw = utf8(dec(p[2])), utf8(dec(p[3]))
            if t[idx:idx + len(o)] != o:
                return None
            t = t[:idx] + nw + t[idx + len(o):]
    return t


def c03_oracle(case, out):
    parts = [x.strip() for x in case.split(";")]
    head = parts[0].split()
    cap, buf, pos = int(head[0]), dec(head[1]), int(head[2])
    steps = out.split(" ; ")
    for op, st in zip(parts[1:], steps):
        if st == "panic":
            return "panic in `%s` on text %s cursor %d" % (op, enc(buf), pos)
        r, nb, npos, bad, ev = parse_step(st)
        name = op.split()[0]
        if bad:
            return "cursor %d is not on a character boundary after `%s`" % (npos, op)
        if name in MOTION_OPS and (nb != buf or ev):
            return "`%s` is a motion/copy but changed the text or notified the listener" % op
        if name in ("mb", "mf", "bs0", "be", "home", "end", "mpw", "mnw", "mto") and r == "0" and npos != pos:
            return "`%s` reported no movement but moved the cursor" % op
        rp = replay(buf, ev)
        if rp is None or rp != utf8(nb):
            return "notifications of `%s` replayed on the old text do not give the new text" % op
        if name == "yankpop" and r == "none" and (nb != buf or npos != pos or ev):
            return "`%s` was refused but changed the text, the cursor or notified the listener" % op
        if name in ("ins", "yank", "upd") and cap < 4096 and blen(buf) <= cap and blen(nb) > cap:
            return "`%s` exceeded the capacity %d" % (op, cap)
        buf, pos = nb, npos
    return None


def c03_corr(res, exe, driver, tier, seed, tmp, with_seg=True, own=True):
    if with_seg:
        p_seg.seg_corr(res, exe, driver, "quick", seed, tmp)
    cases = lb_cases(tier, seed)
    impl = run_impl(exe, "linebuf", cases, tmp)
    if driver:
        model = run_model(driver, "linebuf", cases, tmp)
        compare(res, "linebuf", cases, impl, model, canon=lambda x: x.replace("! e=", " e="))
    res.evaluations += len(cases)
    opk = {}
    for c, o in zip(cases, impl):
        if o == "CAPMISMATCH":
            continue
        why = c03_oracle(c, o)
        if why:
            res.oracle_failures.append({"stream": "linebuf", "case": c, "impl": o, "why": why})
        for p in c.split(";")[1:]:
            k = p.split()[0]
            opk[k] = opk.get(k, 0) + 1
        if " e=d:" in o or " e=is:" in o or " e=ic:" in o or "e=sk" in o:
            res.nontrivial.add(c)
    # recorded witness of K_insert_str_cursor: text inserted BEFORE the cursor through the public insert_str leaves the byte
    # cursor where it was -- inside the inserted character -- and the next operation panics
    wit = run_impl(exe, "linebuf", ["4096 61.62 1 ; istr 0 e9 ; mb 1"], tmp)[0].split(" ; ") if own else []
    if len(wit) == 2 and wit[0] != "panic" and parse_step(wit[0])[3] and wit[1] == "panic":
        res.known_confirmed.append(("K_insert_str_cursor", "LineBuffer::insert_str before the cursor leaves the cursor off a character boundary: "
                                    "'ab' cursor 1, insert_str(0, 'é') -> cursor 1 inside 'é', the next move_backward panics"))
    res.rule = ("linebuf stream: (1) every string of <=3 chars (thorough: <=4) over {a,_,blank,comma,LF,e-acute,U+0301,CJK}, "
                "every character-boundary cursor, ops of every kind (quick: 6 sampled kinds per state) with counts from "
                "{0,1,2,3,4,65535} and every Word/At/CharSearch/Movement form; (2) random multi-line buffers up to 40 (thorough: "
                "200) chars over a 21-letter alphabet incl. 4-byte, ZWJ, RI, case-changing letters, with sequences of 1-8 ops "
                "(state carried); (3) capacities 8..16 with insert/yank/update of 1-4 byte characters. "
                "Non-trivial = at least one op changed the text. Compared with the model per op: return value, text, cursor, "
                "notifications, panic.")
    res.distribution = {"ops": opk}
    res.samples = [{"case": c, "impl": o} for c, o in list(zip(cases, impl))[:: max(1, len(cases) // 4)]][:4]
    return cases, impl


# ------------------------------------------------------------------ C04: ranges

def ud_tables():
    t = {}
    for line in open(os.path.join(CACHE, "udata.txt")):
        if line.startswith("range "):
            _, name, *rest = line.split()
            rs = rest[0].split(",") if rest else []
            t[name] = [(int(a, 16), int(b, 16)) for a, b in (r.split("-") for r in rs)]
    return t


def in_tab(tab, c):
    return any(a <= c <= b for a, b in tab)


class WordSpec:
    def __init__(self, tabs):
        self.alnum, self.ws = tabs["alphanumeric"], tabs["whitespace"]

    def all_alnum(self, g):
        return all(in_tab(self.alnum, c) for c in g)

    def any_ws(self, g):
        return any(in_tab(self.ws, c) for c in g)

    def vi_word(self, g):
        return self.all_alnum(g) or g == [0x5f]

    def other(self, g):
        return not (self.any_ws(g) or self.vi_word(g))

    def word_char(self, w, g):
        return self.all_alnum(g) if w == "e" else self.vi_word(g) if w == "v" else not self.any_ws(g)

    def is_start(self, w, prev, g):
        return (not self.word_char(w, prev) and self.word_char(w, g)) or \
            (w == "v" and not self.other(prev) and self.other(g))

    def is_end(self, w, g, nxt):
        return (not self.word_char(w, nxt) and self.word_char(w, g)) or \
            (w == "v" and not self.other(nxt) and self.other(g))


def offsets(gs):
    out, k = [], 0
    for g in gs:
        out.append(k)
        k += blen(g)
    return out, k


def split_at(s, p):
    """(prefix, suffix) of code-point list s at byte offset p"""
    k = 0
    for i, c in enumerate(s):
        if k == p:
            return s[:i], s[i:]
        k += len(chr(c).encode("utf-8"))
    return s, []


def sb_of(s):
    return utf8(s)


def dec_bytes(b):
    return [ord(ch) for ch in b.decode("utf-8")]


def c04_cases(tier, seed):
    rng = random.Random(seed * 53 + 29)
    n = 12000 if tier == "thorough" else 1500
    out = []
    for _ in range(n):
        alpha = rng.choice([SMALL, BIG])
        s = []
        for _ in range(rng.randint(0, rng.choice([4, 8, 16, 30]))):
            r = rng.random()
            if r > 0.96:
                s += [0x0d, 0x0a] if r > 0.975 else [0x0d]     # CR LF is ONE cluster of two one-byte characters
                continue
            s.append(0x0a if r < 0.1 else 0x20 if r < 0.3 else rng.choice(alpha))
        if rng.random() < 0.04:
            s = [rng.choice([0x20, 0x20, 0x09, 0x3000]) for _ in range(rng.randint(1, 4))] + ([0x61] if rng.random() < 0.3 else [])
        p = rng.choice(boundaries(s))
        head = "4096 %s %d" % (enc(s), p)
        cnt = rng.choice([1, 1, 2, 3, 4, 65535])
        w, a = rng.choice(WORDS), rng.choice(ATS)
        c = rng.choice(s) if s and rng.random() < 0.8 else rng.choice(alpha)
        k = rng.choice("fFbB")
        group = {
            "mf": "mf %d" % cnt, "mb": "mb %d" % cnt,
            "mf1": " ; ".join(["mf 1"] * min(cnt, 6)), "mb1": " ; ".join(["mb 1"] * min(cnt, 6)),
            "mpw": "mpw %s %d" % (w, cnt), "mpw1": " ; ".join(["mpw %s 1" % w] * min(cnt, 6)),
            "mnw": "mnw %s %s %d" % (a, w, cnt), "mnw1": " ; ".join(["mnw %s %s 1" % (a, w)] * min(cnt, 6)),
            "mto": "mto %s:%x %d" % (k, c, cnt),
            "home": "home", "end": "end",
        }
        mv = rand_mvt(rng, [c] + alpha[:3])
        group["copy"] = "copy " + mv
        group["kill"] = "kill " + mv
        # vi `^` as the keymap composes it (home, then the start of the next Big word) and the range of d^ / y^
        group["vfp_motion"] = "home ; mnw s b 1"
        group["copy_vfp"] = "copy vfp"
        group["kill_vfp"] = "kill vfp"
        out.append((head, s, p, group, {"cnt": cnt, "w": w, "a": a, "c": c, "k": k, "mv": mv}))
    return out


def c04_corr(res, exe, driver, tier, seed, tmp):
    cases, impl = c03_corr(res, exe, driver, "quick", seed, tmp, own=False)   # the shared linebuf stream (+ seg)
    # the line motions with a count (LineBuffer::move_to_line_up / _down take the crate-private Layout: reachable only
    # through the editor): Up / Down with counts inside texts of several lines, under prompts of several widths, on a pty
    import p_tty
    lm = p_tty.line_motion_cases(random.Random(seed * 67 + 3), 120 if tier == "thorough" else 48)
    p_tty.run_tty_cases(res, exe, driver, lm, tmp, "linemoves", compare_output=False)
    tabs = ud_tables()
    ws = WordSpec(tabs)
    groups = c04_cases(tier, seed)
    lines, index = [], []
    for gi, (head, s, p, group, meta) in enumerate(groups):
        for name, ops in group.items():
            lines.append(head + " ; " + ops)
            index.append((gi, name))
    impl2 = run_impl(exe, "linebuf", lines, tmp)
    if driver:
        model2 = run_model(driver, "linebuf", lines, tmp)
        compare(res, "linebuf-ranges", lines, impl2, model2, canon=lambda x: x.replace("! e=", " e="))
    res.evaluations += len(lines)
    results = {}
    for (gi, name), o in zip(index, impl2):
        results.setdefault(gi, {})[name] = o
    # segmentations needed by the declarative checks: prefix and suffix at the cursor
    need = {}
    for head, s, p, group, meta in groups:
        pre, suf = split_at(s, p)
        need[tuple(pre)] = None
        need[tuple(suf)] = None
    keys = list(need)
    segs = run_impl(exe, "seg", [enc(list(k)) for k in keys], tmp)
    for k, o in zip(keys, segs):
        o = o.split(" BACKWARD")[0]
        need[k] = [] if o == "_" else [dec(t) for t in o.split(",")]
    fails = res.oracle_failures
    kinds = {}
    # recorded witness of K_word_count: "a b,c", vi `2w` (4) vs `w w` (3)
    wit = run_impl(exe, "linebuf", ["4096 61.20.62.2c.63 0 ; mnw s v 2", "4096 61.20.62.2c.63 0 ; mnw s v 1 ; mnw s v 1"], tmp)
    if "panic" not in wit[0] and "panic" not in wit[1] and \
            parse_step(wit[0].split(" ; ")[-1])[2] != parse_step(wit[1].split(" ; ")[-1])[2]:
        res.known_confirmed.append(("K_word_count", "a word motion with a count is not the single motion iterated "
                                    "(next_word_pos/prev_word_pos skip the pair at the previous hit): 'a b,c' vi 2w lands on c, w w on the comma"))

    def fail(head, ops, o, why):
        fails.append({"stream": "linebuf-ranges", "case": head + " ; " + ops, "impl": o, "why": why})

    for gi, (head, s, p, group, meta) in enumerate(groups):
        r = results[gi]
        if any("panic" in v for v in r.values()):
            bad = [k for k, v in r.items() if "panic" in v][0]
            fail(head, group[bad], r[bad], "panic")
            continue
        pre, suf = split_at(s, p)
        gpre, gsuf = need[tuple(pre)], need[tuple(suf)]
        cnt, w, a = meta["cnt"], meta["w"], meta["a"]
        last = lambda name: parse_step(r[name].split(" ; ")[-1])
        L = blen(s)
        # -- character motions: whole clusters, min(n, remaining)
        off_s, _ = offsets(gsuf)
        exp = p + sum(blen(g) for g in gsuf[:cnt]) if gsuf else p
        if last("mf")[2] != exp:
            fail(head, group["mf"], r["mf"], "forward-char by %d lands at %d, expected %d clusters on = %d" % (cnt, last("mf")[2], min(cnt, len(gsuf)), exp))
        exp = p - sum(blen(g) for g in gpre[::-1][:cnt]) if gpre else p
        if last("mb")[2] != exp:
            fail(head, group["mb"], r["mb"], "backward-char by %d lands at %d, expected %d" % (cnt, last("mb")[2], exp))
        # -- counts are iteration (cnt <= 6 so that the iterated script is complete)
        if cnt <= 6:
            for big, small in (("mf", "mf1"), ("mb", "mb1"), ("mpw", "mpw1"), ("mnw", "mnw1")):
                if last(big)[2] != last(small)[2]:
                    kn = None
                    if big in ("mpw", "mnw") and cnt > 1:
                        kn = "K_word_count"
                    fails.append({"stream": "linebuf-ranges", "case": head + " ; " + group[big], "impl": r[big],
                                  "why": "count %d is not %d single steps: lands at %d, single steps reach %d" % (
                                      cnt, cnt, last(big)[2], last(small)[2]), "known": kn})
        # -- word motions, one step, declaratively
        first = parse_step(r["mpw1"].split(" ; ")[0])
        offp, _ = offsets(gpre)
        exp = 0
        for j in range(len(gpre) - 1, 0, -1):
            if ws.is_start(w, gpre[j - 1], gpre[j]):
                exp = offp[j]
                break
        if p > 0 and first[2] != exp:
            fail(head, "mpw %s 1" % w, r["mpw1"], "previous %s-word start: landed at %d, nearest word start before the cursor is %d" % (w, first[2], exp))
        first = parse_step(r["mnw1"].split(" ; ")[0])
        exp = None
        m = len(gsuf)
        if a == "s":
            for j in range(1, m):
                if ws.is_start(w, gsuf[j - 1], gsuf[j]):
                    exp = p + off_s[j]
                    break
            if exp is None:
                exp = L if w == "e" else (p + off_s[-1] if m > 1 else p)
        elif a == "a":
            for j in range(1, m):
                if ws.is_end(w, gsuf[j - 1], gsuf[j]):
                    exp = p + off_s[j]
                    break
            if exp is None:
                exp = L
        else:
            for j in range(2, m):
                if ws.is_end(w, gsuf[j - 1], gsuf[j]):
                    exp = p + (off_s[j] if w == "e" else off_s[j - 1])
                    break
            if exp is None:
                exp = L if w == "e" else (p + off_s[-1] if m > 1 else p)
        if first[2] != exp:
            fail(head, "mnw %s %s 1" % (a, w), r["mnw1"], "next word (%s,%s): landed at %d, expected %d" % (a, w, first[2], exp))
        # -- character search: on / before / after the n-th occurrence
        c, k = meta["c"], meta["k"]
        st = last("mto")
        if k in "fF":
            skip = blen(gsuf[0]) if gsuf else 0
            rest = split_at(s, p + skip)[1] if gsuf else []
            hits, o = [], p + skip
            for ch in rest:
                if ch == c:
                    hits.append(o)
                o += len(chr(ch).encode("utf-8"))
            tgt = hits[min(cnt, len(hits)) - 1] if hits and cnt >= 1 else None
            if tgt is not None and k == "F":
                # "before" the match = one whole cluster before it (crate's own segmentation of the text up to the match)
                before = split_at(s, tgt)[0]
                if tuple(before) not in need or need[tuple(before)] is None:
                    o2 = run_impl(exe, "seg", [enc(before)], tmp)[0].split(" BACKWARD")[0]
                    need[tuple(before)] = [] if o2 == "_" else [dec(t2) for t2 in o2.split(",")]
                gb = need[tuple(before)]
                tgt -= blen(gb[-1]) if gb else 0
        else:
            hits, o = [], 0
            for ch in pre:
                if ch == c:
                    hits.append(o)
                o += len(chr(ch).encode("utf-8"))
            hits.reverse()
            tgt = hits[min(cnt, len(hits)) - 1] if hits and cnt >= 1 else None
            if tgt is not None and k == "B":
                tgt += len(chr(c).encode("utf-8"))
        if (tgt is None and (st[0] != "0" or st[2] != p)) or (tgt is not None and st[2] != tgt):
            fail(head, group["mto"], r["mto"], "character search %s for the %d-th %x: landed at %d, expected %s" % (k, cnt, c, st[2], tgt))
        # -- home / end bracket the cursor with no line break in between
        hb, eb = last("home")[2], last("end")[2]
        sb = utf8(s)
        if b"\n" in sb[hb:eb] or not (hb <= p <= eb) or (hb > 0 and sb[hb - 1:hb] != b"\n") or (eb < L and sb[eb:eb + 1] != b"\n"):
            fail(head, "home/end", r["home"] + " | " + r["end"], "home/end (%d,%d) do not bracket the cursor's line" % (hb, eb))
        # -- d^ / y^ cover exactly the text between the cursor and where `^` ends (single-line texts: `^` works on the buffer)
        if 0x0a not in s:
            # command.rs: home, and when the text starts with a blank, the start of the next Big word
            e = last("vfp_motion")[2] if s and in_tab(tabs["whitespace"], s[0]) else last("home")[2]
            lo, hi = min(p, e), max(p, e)
            want = "none" if lo == hi else "some:" + enc(dec_bytes(sb_of(s)[lo:hi]))
            got = last("copy_vfp")[0]
            if got != want:
                fail(head, group["copy_vfp"], r["copy_vfp"], "`^` ends at %d from cursor %d: the range is %s, copy(ViFirstPrint) returns %s" % (e, p, want, got))
            kv = last("kill_vfp")
            if utf8(kv[1]) != sb_of(s)[:lo] + sb_of(s)[hi:] or kv[2] != lo:
                fail(head, group["kill_vfp"], r["kill_vfp"], "`^` ends at %d from cursor %d: kill(ViFirstPrint) leaves %s with the cursor at %d" % (e, p, enc(kv[1]), kv[2]))
        # -- kill removes exactly what copy returns
        cp, kl = last("copy"), last("kill")
        mv = meta["mv"]
        kinds[mv.split("/")[0]] = kinds.get(mv.split("/")[0], 0) + 1
        dels = [e for e in kl[4] if e.startswith("d:")]
        if cp[0] != "none":
            text = cp[0][5:]
            if len(dels) != 1 or dels[0].split(":")[2] != text:
                fail(head, group["kill"], r["kill"], "kill %s removed %s but copy %s returns %s" % (mv, dels, mv, text))
            else:
                idx = int(dels[0].split(":")[1])
                tb = utf8(dec(text))
                if sb[:idx] + sb[idx + len(tb):] != utf8(kl[1]) or sb[idx:idx + len(tb)] != tb:
                    fail(head, group["kill"], r["kill"], "after kill %s the text is not the old text minus the range" % mv)
                back = dels[0].split(":")[3] == "b"
                if back and idx + len(tb) != p and mv.split("/")[0] not in ("vfp",):
                    fail(head, group["kill"], r["kill"], "kill %s reports a backward kill for a range that does not end at the cursor" % mv)
                if not (idx <= p <= idx + len(tb)):
                    fail(head, group["kill"], r["kill"], "kill %s removed a range that does not touch the cursor" % mv)
            res.nontrivial.add(head + mv)
        else:
            # nothing to copy: only a line kill on an empty line / at the line start may still remove
            # something, and then exactly one adjacent cluster holding the line break
            if dels:
                ok = mv in ("wl", "eol", "bol") and len(dels) == 1 and 0x0a in dec(dels[0].split(":")[2]) and \
                    len(dec(dels[0].split(":")[2])) <= 2
                if not ok:
                    fail(head, group["kill"], r["kill"], "copy %s returns nothing but kill removed %s" % (mv, dels))
    res.rule += (" C04 adds groups of single-op cases on one state (random buffers <=30 chars, counts {1,2,3,4,65535}): "
                 "forward/backward char, word motions under the three definitions and three anchors, character searches, "
                 "home/end, and copy + kill of one random Movement; checked declaratively over the crate's own segmentation "
                 "(cluster moves, nearest word start/end, n-th occurrence, line bracket) and metamorphically (count n = n single "
                 "steps; kill removes exactly what copy returns).")
    res.distribution["movement_kinds"] = kinds
