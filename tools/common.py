"""Shared machinery of the checks: builds (Coq, extraction, OCaml driver, Rust
harness), stream execution on both sides, comparison, evidence files."""
import fcntl
import hashlib
import json
import os
import re
import shutil
import subprocess
import sys
import tempfile
import time
from concurrent.futures import ThreadPoolExecutor

VERIF = os.path.dirname(os.path.dirname(os.path.abspath(__file__)))
REPO = os.environ.get("VERIF_REPO", "/repo")
CACHE = os.path.join(VERIF, ".cache")
COQ = os.path.join(VERIF, "coq")
NPROC = min(16, os.cpu_count() or 4)
GUARD = "rustyline_verif"

os.makedirs(CACHE, exist_ok=True)


class InfraError(Exception):
    """A failure of the machinery itself (never turned into a verdict)."""


class BuildBroken(Exception):
    """A proof obligation / translator / build tied to the property no longer checks."""

    def __init__(self, what, detail=""):
        super().__init__(what)
        self.what = what
        self.detail = detail


def log(*a):
    print(*a, file=sys.stderr, flush=True)


def run(cmd, cwd=None, timeout=1800, env=None, check=False, input=None):
    e = dict(os.environ)
    e.setdefault("CARGO_NET_OFFLINE", "true")
    if env:
        e.update(env)
    p = subprocess.run(cmd, cwd=cwd, env=e, input=input, stdout=subprocess.PIPE,
                       stderr=subprocess.STDOUT, timeout=timeout,
                       shell=isinstance(cmd, str))
    out = p.stdout.decode("utf-8", "replace")
    if check and p.returncode != 0:
        raise InfraError("command failed: %s\n%s" % (cmd, out[-4000:]))
    return p.returncode, out


class Lock:
    def __init__(self, name):
        self.path = os.path.join(CACHE, name + ".lock")

    def __enter__(self):
        self.f = open(self.path, "w")
        fcntl.flock(self.f, fcntl.LOCK_EX)
        return self

    def __exit__(self, *a):
        fcntl.flock(self.f, fcntl.LOCK_UN)
        self.f.close()


def write_if_changed(path, content):
    try:
        if open(path).read() == content:
            return False
    except OSError:
        pass
    os.makedirs(os.path.dirname(path), exist_ok=True)
    with open(path, "w") as f:
        f.write(content)
    return True


# ---------------------------------------------------------------- Coq

FORBIDDEN = re.compile(
    r"\b(Admitted|admit|Axiom|Axioms|Parameter|Parameters|Conjecture|Conjectures|"
    r"Admit\s+Obligations|bypass_check|native_compute)\b|Unset\s+Guard|Unset\s+Positivity|"
    r"Unset\s+Universe|-type-in-type|-impredicative-set")
ALLOWED_AXIOMS = set()  # none: every property theorem must be closed


def strip_comments(src):
    out, depth, i = [], 0, 0
    while i < len(src):
        if src.startswith("(*", i):
            depth += 1
            i += 2
        elif src.startswith("*)", i) and depth > 0:
            depth -= 1
            i += 2
        else:
            if depth == 0:
                out.append(src[i])
            i += 1
    return "".join(out)


def coq_sources():
    res = []
    for root, _, files in os.walk(os.path.join(COQ, "theories")):
        for f in files:
            if f.endswith(".v"):
                res.append(os.path.join(root, f))
    return sorted(res)


def coq_hygiene():
    """No Admitted / Axiom / ... and no Variable/Hypothesis outside a Section."""
    bad = []
    for path in coq_sources():
        src = strip_comments(open(path).read())
        for m in FORBIDDEN.finditer(src):
            bad.append("%s: %s" % (os.path.relpath(path, VERIF), m.group(0)))
        depth = 0
        for line in src.splitlines():
            s = line.strip()
            if re.match(r"^(Section|Module Type|Module)\s+\w+\s*\.", s) and s.startswith("Section"):
                depth += 1
            elif re.match(r"^End\s+\w+\s*\.", s) and depth > 0:
                depth -= 1
            elif depth == 0 and re.match(r"^(Variable|Variables|Hypothesis|Hypotheses|Context)\b", s):
                bad.append("%s: %s outside a Section" % (os.path.relpath(path, VERIF), s[:40]))
    return bad


def coq_build(targets):
    """Full .vo build of the given targets (relative to coq/), after
    regenerating the translated tables. Raises BuildBroken on a failing proof."""
    import gen_tables
    with Lock("coq"):
        try:
            gen_tables.generate(REPO, os.path.join(COQ, "theories", "Gen"))
        except gen_tables.TranslatorError as e:
            raise BuildBroken("translator", str(e))
        if not os.path.exists(os.path.join(COQ, "Makefile")) or \
                os.path.getmtime(os.path.join(COQ, "Makefile")) < os.path.getmtime(os.path.join(COQ, "_CoqProject")):
            run("coq_makefile -f _CoqProject -o Makefile", cwd=COQ, check=True)
        rc, out = run(["timeout", "1500", "make", "-j%d" % NPROC] + targets, cwd=COQ, timeout=1600)
        if rc != 0:
            m = re.search(r'File "([^"]+)", line (\d+)', out)
            where = "%s:%s" % (m.group(1), m.group(2)) if m else "?"
            raise BuildBroken("coq proof/build failed at " + where, out[-3000:])
    return out


def theorems_of(props_file):
    src = strip_comments(open(os.path.join(COQ, "theories", "Props", props_file)).read())
    return re.findall(r"^\s*Theorem\s+(\w+)", src, re.M)


def examples_of(props_file):
    src = strip_comments(open(os.path.join(COQ, "theories", "Props", props_file)).read())
    return re.findall(r"^\s*Example\s+(\w+)", src, re.M)


def props_exact_only(props_file):
    """Every Theorem in a Props file is closed by `exact`/`intros; exact`."""
    src = strip_comments(open(os.path.join(COQ, "theories", "Props", props_file)).read())
    bad = []
    for m in re.finditer(r"Theorem\s+(\w+)(.*?)Proof\.(.*?)Qed\.", src, re.S):
        body = m.group(3).strip()
        if not re.fullmatch(r"(intros[^.]*\.\s*)?exact\s.*\.", body, re.S):
            bad.append(m.group(1))
    return bad


def print_assumptions(module, names):
    """Ask Coq (fresh coqc run over the compiled .vo) what each theorem assumes."""
    d = tempfile.mkdtemp(prefix="rlassum")
    try:
        src = "From RL Require Import %s.\n" % module
        for n in names:
            src += 'Print Assumptions %s.\nCheck %s.\n' % (n, n)
        p = os.path.join(d, "Assum.v")
        open(p, "w").write(src)
        rc, out = run(["timeout", "300", "coqc", "-Q", os.path.join(COQ, "theories"), "RL", p], cwd=d)
        if rc != 0:
            raise BuildBroken("Print Assumptions failed for " + module, out[-2000:])
    finally:
        shutil.rmtree(d, ignore_errors=True)
    # split output per theorem: each Print Assumptions block is followed by the Check line "name\n : stmt"
    res = {}
    blocks = re.split(r"^(\w+)\s*\n\s+:", out, flags=re.M)
    # blocks = [assum_0, name_0, stmt_0+assum_1, name_1, ...]
    pending = blocks[0]
    i = 1
    while i < len(blocks):
        name = blocks[i]
        res[name] = pending
        nxt = blocks[i + 1]
        k = nxt.find("Closed under the global context")
        k2 = nxt.find("Axioms:")
        cut = min([x for x in (k, k2) if x >= 0], default=len(nxt))
        pending = nxt[cut:]
        i += 2
    result = {}
    for n in names:
        txt = res.get(n, "")
        if "Closed under the global context" in txt:
            result[n] = []
        else:
            ax = re.findall(r"^\s*([\w.]+)\s*:", txt, re.M)
            result[n] = ax if ax else ["<unparsed: %s>" % txt.strip()[:200]]
    return result


def proof_stage(prop_id, props_file, extra_targets=()):
    """Build proofs for a property. Returns a dict for the evidence file.
    Raises BuildBroken when an obligation no longer checks."""
    t0 = time.time()
    bad = coq_hygiene()
    if bad:
        raise BuildBroken("forbidden construct in the development", "\n".join(bad))
    module = props_file[:-2]
    targets = ["theories/Props/%s.vo" % module, "theories/Extract/Extract.vo"] + list(extra_targets)
    coq_build(targets)
    thms = theorems_of(props_file)
    exs = examples_of(props_file)
    notexact = props_exact_only(props_file)
    if notexact:
        raise BuildBroken("property theorem not closed by exact: " + ",".join(notexact))
    assum = print_assumptions(module, thms)
    offenders = {n: a for n, a in assum.items() if any(x not in ALLOWED_AXIOMS for x in a)}
    if offenders:
        raise BuildBroken("theorem depends on axioms: %r" % offenders)
    return {
        "obligations": len(thms) + len(exs),
        "discharged": len(thms) + len(exs),
        "theorems": thms,
        "examples": exs,
        "checker_cmd": "make -C coq -j%d %s && coqc Print Assumptions <each theorem>" % (NPROC, " ".join(targets)),
        "axioms": assum,
        "proof_wall_s": round(time.time() - t0, 2),
    }


# ---------------------------------------------------------------- OCaml driver

def driver_build():
    with Lock("ocaml"):
        d = os.path.join(CACHE, "ocaml")
        os.makedirs(d, exist_ok=True)
        srcs = [os.path.join(COQ, "model.ml"), os.path.join(COQ, "model.mli"),
                os.path.join(VERIF, "ocaml", "driver.ml")]
        for s in srcs:
            if not os.path.exists(s):
                raise InfraError("missing " + s)
        h = hashlib.sha256(b"".join(open(s, "rb").read() for s in srcs)).hexdigest()
        stamp = os.path.join(d, "stamp")
        exe = os.path.join(d, "driver")
        if os.path.exists(exe) and os.path.exists(stamp) and open(stamp).read() == h:
            return exe
        for s in srcs:
            shutil.copy(s, d)
        rc, out = run("ocamlfind ocamlopt -O3 -w -a -o driver model.mli model.ml driver.ml", cwd=d, timeout=900)
        if rc != 0:
            raise BuildBroken("extracted model / driver does not compile", out[-3000:])
        open(stamp, "w").write(h)
        return exe


# ---------------------------------------------------------------- Rust harness

def harness_build(release=False):
    """Build rlharness against REPO's current working tree (hooks on)."""
    with Lock("cargo"):
        hd = os.path.join(VERIF, "harness")
        tmpl = open(os.path.join(hd, "Cargo.toml.in")).read().replace("@REPO@", REPO)
        write_if_changed(os.path.join(hd, "Cargo.toml"), tmpl)
        lock_src = os.path.join(REPO, "Cargo.lock")
        if os.path.exists(lock_src):
            shutil.copy(lock_src, os.path.join(hd, "Cargo.lock"))
        env = {"CARGO_TARGET_DIR": os.path.join(CACHE, "target"),
               "RUSTFLAGS": "--cfg %s -Awarnings" % GUARD, "CARGO_NET_OFFLINE": "true"}
        cmd = ["cargo", "build", "--offline", "-q"] + (["--release"] if release else [])
        rc, out = run(cmd, cwd=hd, env=env, timeout=1800)
        if rc != 0:
            raise InfraError("harness build failed (does /repo compile?)\n" + out[-3000:])
        exe = os.path.join(CACHE, "target", "release" if release else "debug", "rlharness")
        # Unicode data from the implementation's own libraries + vendored tables
        ud = os.path.join(CACHE, "udata.txt")
        rc, out = run([exe, "udata"], timeout=300)
        if rc != 0:
            raise InfraError("udata dump failed")
        import gen_tables
        try:
            out += gen_tables.gcat_dump(REPO)
        except gen_tables.TranslatorError as e:
            raise BuildBroken("translator", str(e))
        write_if_changed(ud, out)
        return exe


# ---------------------------------------------------------------- streams

def shard(lines, n):
    k = max(1, (len(lines) + n - 1) // n)
    return [lines[i:i + k] for i in range(0, len(lines), k)]


def run_sharded(cmd_for_file, lines, tmpdir, tag, timeout=1200):
    """Run a line-in/line-out program over `lines`, sharded over NPROC processes."""
    if not lines:
        return []
    shards = shard(lines, NPROC)

    def one(i):
        p = os.path.join(tmpdir, "%s-%d.in" % (tag, i))
        with open(p, "w") as f:
            f.write("\n".join(shards[i]) + "\n")
        rc, out = run(cmd_for_file(p), timeout=timeout)
        res = out.split("\n")
        if res and res[-1] == "":
            res.pop()
        if rc != 0 or len(res) != len(shards[i]):
            raise InfraError("%s shard %d: rc=%s, %d results for %d cases\n%s" %
                             (tag, i, rc, len(res), len(shards[i]), out[-1500:]))
        return res

    with ThreadPoolExecutor(NPROC) as ex:
        parts = list(ex.map(one, range(len(shards))))
    return [x for p in parts for x in p]


def run_impl(exe, stream, lines, tmpdir, timeout=1200):
    return run_sharded(lambda p: [exe, stream, p], lines, tmpdir, "impl-" + stream, timeout)


def run_model(driver, stream, lines, tmpdir, timeout=1200):
    ud = os.path.join(CACHE, "udata.txt")
    return run_sharded(lambda p: ["bash", "-c", "ulimit -s unlimited; exec %s %s %s %s" % (driver, stream, ud, p)],
                       lines, tmpdir, "model-" + stream, timeout)


# ---------------------------------------------------------------- findings / evidence

def known_findings():
    p = os.path.join(VERIF, "known_findings.json")
    if not os.path.exists(p):
        return []
    return json.load(open(p))["findings"]


TRUSTED_BASE = [
    "Coq 8.16.1 kernel (coqc, full .vo build); vm_compute inside Example/witness proofs; no native_compute",
    "axioms: none (Print Assumptions of every property theorem must say 'Closed under the global context')",
    "extraction: ExtrOcamlBasic only (Extract Inductive bool/option/unit/list/prod/sumbool/sumor), no Extract Constant; OCaml 4.13.1; ocaml/driver.ml parser/printer",
    "translators tools/gen_tables.py (constants/tables from /repo source into Gen/*.v) and the Unicode table dump (harness `udata`, unicode-segmentation tables.rs)",
    "correspondence check: harness/ (Rust glue over rustyline's public API) and tools/*.py generators, comparison and oracles",
    "all of rustyline is modelled, not verified: theorems are about coq/theories/Model/*.v; the correspondence streams tie the model to /repo on the inputs they ran",
]


def write_evidence(prop_id, tier, seed, proof, coverage, assumptions, wall_s, violations, level="proof"):
    cov = dict(coverage)
    if proof:
        cov.update({
            "obligations": proof["obligations"], "discharged": proof["discharged"],
            "checker_cmd": proof["checker_cmd"], "theorems": proof["theorems"],
            "examples": proof["examples"], "axioms_per_theorem": proof["axioms"],
        })
    else:
        cov.setdefault("obligations", 1)
        cov.setdefault("discharged", 0)
        cov.setdefault("checker_cmd", "make -C coq (failed)")
    cov["trusted_base"] = TRUSTED_BASE + list(cov.get("trusted_base_extra", []))
    cov.pop("trusted_base_extra", None)
    ev = {"property_id": prop_id, "tier": tier, "seed": seed, "level": level,
          "coverage": cov, "assumptions": assumptions, "wall_s": round(wall_s, 2),
          "violations": violations}
    os.makedirs(os.path.join(VERIF, "evidence"), exist_ok=True)
    with open(os.path.join(VERIF, "evidence", prop_id + ".json"), "w") as f:
        json.dump(jsonable(ev), f, indent=1, ensure_ascii=False)
        f.write("\n")


def jsonable(o):
    """whatever a generator put into a case's meta (tuple keys, bytes, sets) in a form json can write: a report must never
    fail to be written"""
    if isinstance(o, dict):
        return {(k if isinstance(k, (str, int, float, bool)) or k is None else str(k)): jsonable(v) for k, v in o.items()}
    if isinstance(o, (list, tuple, set, frozenset)):
        return [jsonable(x) for x in (sorted(o, key=str) if isinstance(o, (set, frozenset)) else o)]
    if isinstance(o, (bytes, bytearray)):
        return bytes(o).hex()
    if isinstance(o, (str, int, float, bool)) or o is None:
        return o
    return str(o)


def write_replay(prop_id, payload):
    d = os.path.join(VERIF, "replay")
    os.makedirs(d, exist_ok=True)
    blob = json.dumps(jsonable(payload), indent=1, ensure_ascii=False, sort_keys=True)
    h = hashlib.sha256(blob.encode()).hexdigest()[:12]
    p = os.path.join(d, "%s-%s.json" % (prop_id, h))
    with open(p, "w") as f:
        f.write(blob + "\n")
    return p


# ---------------------------------------------------------------- the common flow of a check

class CorrResult:
    """What a correspondence + oracle run produced."""

    def __init__(self):
        self.evaluations = 0
        self.nontrivial = set()      # canonical forms of distinct non-trivial cases
        self.rule = ""
        self.samples = []
        self.distribution = {}
        self.disagreements = []      # [{stream, case, impl, model}]
        self.oracle_failures = []    # [{stream, case, impl, why, known: id|None}]
        self.known_confirmed = []    # [(id, what)]
        self.extra = {}


def flow(prop_id, props_file, tier, seed, corr_fn, assumptions, partial_note=None, release_too=False):
    """Run one check. Returns the process exit code."""
    t0 = time.time()
    proof = None
    broken = None
    try:
        proof = proof_stage(prop_id, props_file)
    except BuildBroken as e:
        broken = e
        log("PROOF/BUILD BROKEN:", e.what)
        log(e.detail[-2000:])
    except InfraError as e:
        log("infrastructure failure:", e)
        return 2
    res = CorrResult()
    corr_broken = None
    try:
        exe = harness_build()
        try:
            driver = driver_build()
        except BuildBroken as e:
            driver = None
            if broken is None:
                broken = e
        tmp = tempfile.mkdtemp(prefix="rlchk-%s-" % prop_id)
        try:
            corr_fn(res, exe, driver, tier, seed, tmp)
        except (BuildBroken, InfraError):
            raise
        except Exception:
            # the comparison / oracle code met an answer it cannot read (never on the unchanged tree): the correspondence
            # no longer checks -- reported as such, with whatever failing inputs were found before
            import traceback
            tb = traceback.format_exc()
            log("the correspondence check could not be completed:", tb[-1500:])
            res.disagreements.append({"stream": "correspondence of %s (could not be completed)" % prop_id, "case": "",
                                      "impl": "", "model": "", "why": tb[-3000:]})
        finally:
            shutil.rmtree(tmp, ignore_errors=True)
    except BuildBroken as e:
        if broken is None:
            broken = e
    except InfraError as e:
        log("infrastructure failure:", e)
        write_evidence(prop_id, tier, seed, proof, {"explanation": "infrastructure failure: %s" % str(e)[:500],
                                                     "evaluations": 1, "distinct_nontrivial": 2},
                       assumptions, time.time() - t0, 0)
        return 2

    exit_code = 0
    lines = []
    for fid, what in res.known_confirmed:
        lines.append("KNOWN-FINDING: property=%s %s (%s)" % (prop_id, what, fid))
    # a read that panicked on the implementation where the model (for which the panic is proved unreachable or
    # which simply did not) returned something: that input IS a failing input of every property about reads
    for d in res.disagreements:
        impl = d.get("impl")
        if isinstance(impl, str) and "O=panic" in impl and "O=panic" not in str(d.get("model")):
            res.oracle_failures.append({"stream": d.get("stream"), "case": d.get("case"), "keys": d.get("keys"),
                                        "why": "panic: the implementation's read panicked on this input (the model returns %s)" %
                                               str(d.get("model"))[:120]})
    new_fail = [f for f in res.oracle_failures if not f.get("known")]
    nviol = 0
    if new_fail:
        # report the smallest failing inputs, one VIOLATION line per distinct reason (max 5)
        seen = set()
        for f in sorted(new_fail, key=lambda f: len(json.dumps(f.get("case", "")))):
            key = f.get("why", "").split(":")[0][:60]
            if key in seen or len(seen) >= 5:
                continue
            seen.add(key)
            path = write_replay(prop_id, {"property": prop_id, "kind": "failing-input", **f})
            lines.append("VIOLATION property=%s replay=%s" % (prop_id, path))
            nviol += 1
        exit_code = 1
    elif broken is not None or res.disagreements:
        payload = {"property": prop_id, "kind": "no-failing-input-found"}
        if broken is not None:
            payload["broken_obligation"] = broken.what
            payload["detail"] = broken.detail[-3000:]
        if res.disagreements:
            payload["correspondence_stream"] = sorted({d["stream"] for d in res.disagreements})
            payload["first_disagreements"] = res.disagreements[:5]
        path = write_replay(prop_id, payload)
        lines.append("VIOLATION property=%s replay=%s no-failing-input-found" % (prop_id, path))
        nviol += 1
        exit_code = 1
    cov = {
        "evaluations": res.evaluations,
        "distinct_nontrivial": len(res.nontrivial),
        "rule": res.rule,
        "samples": res.samples[:6],
        "distribution": res.distribution,
        "disagreements_checked": len(res.disagreements),
        "model_impl_disagreements": len(res.disagreements),
        "oracle_failures": len(res.oracle_failures),
        "known_findings_confirmed": [k[0] for k in res.known_confirmed],
    }
    if partial_note:
        cov["partial"] = partial_note
    cov.update(res.extra)
    write_evidence(prop_id, tier, seed, proof, cov, assumptions, time.time() - t0, nviol)
    for l in lines:
        print(l)
    sys.stdout.flush()
    log("%s %s: %d cases, %d disagreements, %d oracle failures, proof %s, %.1fs" %
        (prop_id, tier, res.evaluations, len(res.disagreements), len(res.oracle_failures),
         "ok" if proof else "BROKEN", time.time() - t0))
    return exit_code


def compare(res, stream, cases, impl_out, model_out, canon=lambda x: x):
    """Record model/impl disagreements."""
    for c, a, b in zip(cases, impl_out, model_out):
        if canon(a) != canon(b):
            res.disagreements.append({"stream": stream, "case": c, "impl": a, "model": b})
