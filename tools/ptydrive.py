"""Drive `rlharness tty-child` through a pseudo-terminal, deterministically.

A case = (spec text, list of byte chunks, cols, rows). After each chunk the
driver waits for QUIESCENCE: the child blocked in read/poll/select on the tty
(seen in /proc/<pid>/syscall, state S) with all output drained. No sleeps, no
wall-clock assumptions in the verdict."""
import errno
import fcntl
import os
import select
import signal
import struct
import sys
import tempfile
import termios
import time

BLOCKING_SYSCALLS = {"0", "7", "23", "270", "271", "232", "281", "219"}  # 219 restart_syscall: a wait resumed after stop/continue  # read poll select pselect6 ppoll epoll_wait epoll_pwait


def _state(pid):
    try:
        with open("/proc/%d/stat" % pid) as f:
            s = f.read()
        return s[s.rindex(")") + 2]
    except OSError:
        return "X"


def _syscall(pid):
    try:
        with open("/proc/%d/syscall" % pid) as f:
            return f.read().split()
    except OSError:
        return ["-1"]


def _rchar(pid):
    """bytes the MAIN THREAD of the process (the one that reads the terminal) has obtained from read() calls so far, on all
    descriptors. Per thread, not per process: other threads of the child read other things (the pipe standing in for a pager
    that quits, in C16's scripts) and would make the driver believe the keys had been read already."""
    for path in ("/proc/%d/task/%d/io" % (pid, pid), "/proc/%d/io" % pid):
        try:
            with open(path) as f:
                return int(f.readline().split()[1])
        except (OSError, ValueError, IndexError):
            continue
    return None


def _infinite_wait(sc):
    """the blocking call has no timeout (a wait with a timeout is still 'busy': the driver
    must not slip the next chunk into a key-sequence timeout window)"""
    n = sc[0]
    try:
        if n in ("0", "219"):
            return True
        if n == "7":      # poll(fds, nfds, timeout_ms)
            return int(sc[3], 16) & 0xffffffff == 0xffffffff
        if n == "271":    # ppoll(fds, nfds, tmo_p, ...)
            return int(sc[3], 16) == 0
        if n in ("23", "270"):  # select/pselect6(n, r, w, e, timeout, ...)
            return int(sc[5], 16) == 0
        if n in ("232", "281"):  # epoll_wait(epfd, ev, max, timeout)
            return int(sc[4], 16) & 0xffffffff == 0xffffffff
    except (IndexError, ValueError):
        return False
    return False


def apply_mode(a, what):
    """terminal modes an application may have in force around a read (a = tcgetattr list, changed in place):
    True / "ce": no canonical mode, no echo;  "raw": what cfmakeraw-like code sets (lflag + iflag + VMIN/VTIME);
    "lraw": the four local flags raw mode clears are already off, the input flags and everything else cooked;
    "vtime": raw with VMIN 0 / VTIME 5;  "strip": cooked, with ISTRIP | INPCK on;
    "cooked": canonical, echo, signals."""
    if what is True or what == "ce":
        a[3] &= ~(termios.ICANON | termios.ECHO)
    elif what == "raw":
        a[3] &= ~(termios.ICANON | termios.ECHO | termios.ISIG)
        a[0] &= ~(termios.ICRNL | termios.IXON)
        a[6][termios.VMIN] = 1
        a[6][termios.VTIME] = 0
    elif what == "lraw":
        a[3] &= ~(termios.ICANON | termios.ECHO | termios.ISIG | termios.IEXTEN)
        a[0] |= (termios.ICRNL | termios.IXON | termios.BRKINT)
    elif what == "vtime":
        a[3] &= ~(termios.ICANON | termios.ECHO | termios.ISIG | termios.IEXTEN)
        a[0] &= ~(termios.ICRNL | termios.IXON | termios.BRKINT | termios.INPCK | termios.ISTRIP)
        a[2] |= termios.CS8
        a[6][termios.VMIN] = 0
        a[6][termios.VTIME] = 5
    elif what == "strip":
        a[3] |= (termios.ICANON | termios.ECHO | termios.ISIG)
        a[0] |= (termios.ISTRIP | termios.INPCK | termios.ICRNL)      # (a pty keeps 8-bit characters whatever is asked)
    elif what == "cooked":
        a[3] |= (termios.ICANON | termios.ECHO | termios.ISIG)
        a[0] |= termios.ICRNL
    else:
        raise ValueError(what)


class Session:
    def __init__(self, exe, spec, cols=80, rows=24, raw_initial=False, timeout=20.0, ctty=True):
        self.timeout = timeout
        self.out = bytearray()
        self.obs = []
        self.winch_marks = []     # length of the output when each window resize was made
        self._obsbuf = b""
        fd, self.spec_path = tempfile.mkstemp(prefix="rlspec")
        os.write(fd, spec.encode())
        os.close(fd)
        self.obs_r, obs_w = os.pipe()
        ctl_r, self.ctl_w = os.pipe()
        self.master, slave = os.openpty()
        fcntl.ioctl(slave, termios.TIOCSWINSZ, struct.pack("HHHH", rows, cols, 0, 0))
        if raw_initial:
            a = termios.tcgetattr(slave)
            apply_mode(a, raw_initial)
            termios.tcsetattr(slave, termios.TCSANOW, a)
        self.initial_termios = termios.tcgetattr(slave)
        pid = os.fork()
        if pid == 0:
            try:
                os.setsid()
                if ctty:
                    fcntl.ioctl(slave, termios.TIOCSCTTY, 0)
                # (ctty False: the terminal on descriptors 0-2 is NOT the process's controlling terminal, as when a supervisor hands
                # a pty slave to a child: job-control queries on it fail, reading and tcsetattr work)
                os.dup2(slave, 0)
                os.dup2(slave, 1)
                os.dup2(slave, 2)
                os.dup2(obs_w, 3)
                os.dup2(ctl_r, 4)
                for f in (self.master, slave, obs_w, self.obs_r, ctl_r, self.ctl_w):
                    if f > 4:
                        try:
                            os.close(f)
                        except OSError:
                            pass
                env = dict(os.environ)
                env["TERM"] = "xterm"
                env.pop("TERM_PROGRAM", None)
                os.execve(exe, [exe, "tty-child", self.spec_path], env)
            finally:
                os._exit(127)
        self.pid = pid
        self.slave = slave        # kept open: the terminal stays "connected" after the child exits
        try:
            self.slave_name = os.ttyname(slave)
        except OSError:
            self.slave_name = ""
        os.close(obs_w)
        os.close(ctl_r)
        os.set_blocking(self.master, False)
        os.set_blocking(self.obs_r, False)
        self.alive = True
        self.sent = 0
        self.on_stop = None
        self.rbase = None         # rchar of the child when it first waited for the terminal

    # -- plumbing
    def _drain(self):
        got = False
        while True:
            r, _, _ = select.select([self.master, self.obs_r], [], [], 0)
            if not r:
                return got
            for fd in r:
                try:
                    d = os.read(fd, 65536)
                except OSError as e:
                    if e.errno in (errno.EIO, errno.EAGAIN):
                        d = b""
                    else:
                        raise
                if not d:
                    if fd == self.obs_r:
                        # writer closed
                        return got
                    continue
                got = True
                if fd == self.master:
                    self.out += d
                else:
                    self._obsbuf += d
                    while b"\n" in self._obsbuf:
                        line, self._obsbuf = self._obsbuf.split(b"\n", 1)
                        self.obs.append(line.decode())

    def _drain_obs_for(self, seconds):
        t0 = time.time()
        while time.time() - t0 < seconds:
            r, _, _ = select.select([self.obs_r], [], [], 0.01)
            if r:
                try:
                    d = os.read(self.obs_r, 65536)
                except OSError:
                    d = b""
                self._obsbuf += d
                while b"\n" in self._obsbuf:
                    line, self._obsbuf = self._obsbuf.split(b"\n", 1)
                    self.obs.append(line.decode())

    def _exited(self):
        if not self.alive:
            return True
        try:
            p, st = os.waitpid(self.pid, os.WNOHANG)
        except ChildProcessError:
            self.alive = False
            return True
        if p == self.pid:
            self.alive = False
            self.status = st
            return True
        return False

    def wait_quiet(self):
        """Wait until the child is blocked reading the tty (or has exited) and nothing is pending."""
        t0 = time.time()
        stable = 0
        while True:
            got = self._drain()
            if self._exited():
                self._drain()
                return "exited"
            st = _state(self.pid)
            sc = _syscall(self.pid)
            blocked = st == "S" and sc and sc[0] in BLOCKING_SYSCALLS and _infinite_wait(sc)
            if blocked and sc[0] == "0" and len(sc) > 1 and sc[1] not in ("0x0",):
                # a read on something else than standard input: still the terminal when the editor opened it itself (PreferTerm)
                try:
                    link = os.readlink("/proc/%d/fd/%d" % (self.pid, int(sc[1], 16)))
                except (OSError, ValueError):
                    link = ""
                if link not in (self.slave_name, "/dev/tty"):
                    blocked = False
            if blocked:
                # input written to the terminal but not yet read by the child
                try:
                    pending = struct.unpack("i", fcntl.ioctl(self.slave, termios.FIONREAD, b"\0\0\0\0"))[0]
                except OSError:
                    pending = 0
                if pending:
                    blocked = False
            if blocked and self.rbase is not None:
                # a pty hands bytes to the slave side asynchronously: the child may still be blocked
                # only because they have not arrived yet. It must have read everything we sent.
                rc = _rchar(self.pid)
                if rc is not None and rc - self.rbase < self.sent:
                    blocked = False
            if st == "T":
                return "stopped"
            if blocked and not got:
                stable += 1
                if stable >= 2:
                    if self.rbase is None:
                        self.rbase = _rchar(self.pid)
                    return "quiet"
            else:
                stable = 0
            if time.time() - t0 > self.timeout:
                return "timeout"
            time.sleep(0.0004)

    def send(self, data, stall=None):
        os.write(self.master, bytes(data))
        self.sent += len(data)
        if stall:
            # the terminal's output is NOT read for a while (a stalled pty / ssh reader): the child blocks in the write of
            # its repaint, and window resizes (SIGWINCH, handled without SA_RESTART) interrupt that write
            # (the observation pipe IS read meanwhile: the child must block on the terminal, not on its log)
            self._drain_obs_for(0.15)
            for cols in stall:
                fcntl.ioctl(self.master, termios.TIOCSWINSZ, struct.pack("HHHH", 24, cols, 0, 0))
                self._drain_obs_for(0.06)
        st = self.wait_quiet()
        n = 0
        while st == "stopped" and n < 50:     # the child stopped itself (between reads with `pause 1`): resume it
            if self.on_stop is not None:
                self.on_stop(self)
            os.kill(self.pid, signal.SIGCONT)
            time.sleep(0.002)
            st = self.wait_quiet()
            n += 1
        return st

    def tell_printer(self, thread, text_hex, wait=True):
        """have printer thread `thread` print the text; wait until it reports the print done and the child is quiet"""
        n0 = sum(1 for l in self.obs if l.startswith("P "))
        os.write(self.ctl_w, ("%d %s\n" % (thread, text_hex)).encode())
        if not wait:
            return "sent"
        t0 = time.time()
        while time.time() - t0 < self.timeout:
            self._drain()
            if sum(1 for l in self.obs if l.startswith("P ")) > n0:
                break
            if self._exited():
                return "exited"
            time.sleep(0.0005)
        st = self.wait_quiet()
        self.rebase()
        return st

    def rebase(self):
        """after something made the child read from a descriptor other than the terminal (signal pipe,
        message pipe): count terminal bytes from here again"""
        rc = _rchar(self.pid)
        if rc is not None:
            self.rbase = rc - self.sent

    def resize(self, cols, rows=24):
        """TIOCSWINSZ on the master: the kernel sends SIGWINCH to the foreground process group"""
        self._drain()
        self.winch_marks.append(len(self.out))
        fcntl.ioctl(self.master, termios.TIOCSWINSZ, struct.pack("HHHH", rows, cols, 0, 0))
        time.sleep(0.002)
        st = self.wait_quiet()
        self.rebase()
        return st

    def stop_and_continue(self):
        """suspend and resume the child: SIGSTOP (the child is a session leader in an orphaned process group, where
        SIGTSTP's default action is ignored), then SIGCONT"""
        os.kill(self.pid, signal.SIGSTOP)
        t0 = time.time()
        while _state(self.pid) not in ("T", "X", "Z") and time.time() - t0 < 5:
            time.sleep(0.001)
        os.kill(self.pid, signal.SIGCONT)
        time.sleep(0.002)
        st = self.wait_quiet()
        self.rebase()
        return st

    def termios_now(self):
        return termios.tcgetattr(self.slave)

    def hangup_and_close(self):
        """Close the terminal; collect what remains; kill a child that does not finish."""
        try:
            os.close(self.master)
        except OSError:
            pass
        t0 = time.time()
        while not self._exited() and time.time() - t0 < 5:
            if _state(self.pid) == "T":       # paused between reads: let it go on (nothing more to look at)
                try:
                    os.kill(self.pid, signal.SIGCONT)
                except OSError:
                    pass
            time.sleep(0.002)
        wedged = not self._exited()
        if wedged:
            try:
                os.kill(self.pid, signal.SIGKILL)
                os.waitpid(self.pid, 0)
            except OSError:
                pass
        # remaining observations
        try:
            while True:
                d = os.read(self.obs_r, 65536)
                if not d:
                    break
                self._obsbuf += d
        except OSError:
            pass
        for line in self._obsbuf.split(b"\n"):
            if line:
                self.obs.append(line.decode())
        for f in (self.obs_r, self.slave, self.ctl_w):
            try:
                os.close(f)
            except OSError:
                pass
        try:
            os.unlink(self.spec_path)
        except OSError:
            pass
        return wedged

    def finish(self):
        """The child has been told everything; let it end its reads by hanging up."""
        return self.hangup_and_close()


def run_case(exe, spec, chunks, cols=80, rows=24, raw_initial=False, probe=None, events=None, between_reads=None, sync_keys=False, ctty=True):
    """Returns dict: obs (list of lines), out (bytes), per-chunk outputs, statuses.
    events: {chunk index: [("winch", cols) | ("tstp",)]} performed once that chunk has been consumed.
    sync_keys: one key per chunk, every key logged by the child (no custom binding swallows it): after chunk k wait until
    k+1 key observations have arrived, and before hanging up until a result line has -- for children whose other file
    I/O (an SQLite database) makes the read-counter test of quiescence unreliable.
    between_reads: list of "keep" | "raw" | "cooked": with `pause 1` in the spec the child stops itself after every
    read; the driver then records the terminal settings (key "stops") and switches them as told before resuming."""
    s = Session(exe, spec, cols, rows, raw_initial, ctty=ctty)
    try:
        return _run_case(s, chunks, rows, probe, events, between_reads, sync_keys)
    except BaseException:
        # never leave a (possibly stopped) child or its spec file behind
        try:
            os.kill(s.pid, signal.SIGKILL)
            os.waitpid(s.pid, 0)
        except OSError:
            pass
        try:
            os.unlink(s.spec_path)
        except OSError:
            pass
        raise


def _run_case(s, chunks, rows, probe, events, between_reads, sync_keys):
    stops = []

    def on_stop(sess):
        sess._drain()
        before = termios.tcgetattr(sess.slave)
        k = len(stops)
        what = between_reads[k] if between_reads and k < len(between_reads) else "keep"
        if what != "keep":
            a = termios.tcgetattr(sess.slave)
            apply_mode(a, what)
            termios.tcsetattr(sess.slave, termios.TCSANOW, a)
        stops.append({"found": before, "left": termios.tcgetattr(sess.slave), "out_mark": len(sess.out), "obs_mark": len(sess.obs)})
        ahead = (events or {}).get("at_stop:%d" % k)
        if ahead:
            # typed while the application is busy between two reads (the terminal is in its cooked mode): waiting for the next read
            os.write(sess.master, bytes(ahead))
            sess.sent += len(ahead)

    s.on_stop = on_stop if between_reads is not None or any(str(k).startswith("at_stop:") for k in (events or {})) else None
    statuses = [s.wait_quiet()]
    marks = [len(s.out)]
    obs_marks = [len(s.obs)]
    tio = []
    for k, ch in enumerate(chunks):
        if not s.alive or "timeout" in statuses:
            # (a child that stopped consuming its input: the verdict is `wedged`; nothing sent later can change it)
            break
        statuses.append(s.send(ch, stall=(events or {}).get("stall:%d" % k)))
        if sync_keys:
            t0 = time.time()
            while time.time() - t0 < s.timeout:
                s._drain()
                if sum(1 for l in s.obs if l.startswith("K ")) >= k + 1 or any(l.startswith("R ") for l in s.obs) or s._exited():
                    break
                time.sleep(0.0005)
            if k + 1 == len(chunks):
                t0 = time.time()
                while time.time() - t0 < s.timeout:
                    s._drain()
                    if any(l.startswith("R ") for l in s.obs) or s._exited():
                        break
                    time.sleep(0.0005)
            elif s.alive and not s._exited():
                # the key has reached the keymap: once the child blocks again its command is done. Count terminal
                # bytes from here (whatever else it read meanwhile -- a database, the message pipe -- is forgotten)
                s.rebase()
                statuses[-1] = s.wait_quiet()
                s.rebase()
        for ev in (events or {}).get(k, []):
            if not s.alive:
                break
            if ev[0] == "winch":
                statuses.append(s.resize(ev[1], rows))
            elif ev[0] == "tstp":
                statuses.append(s.stop_and_continue())
            elif ev[0] == "print":
                statuses.append(s.tell_printer(ev[1], ev[2], wait=True))
            elif ev[0] == "print_nowait":
                statuses.append(s.tell_printer(ev[1], ev[2], wait=False))
            elif ev[0] == "print_with_keys":
                # keys typed ahead and a message handed over at the same moment (the child's key handling is slow: `key_delay_ms`),
                # so that the terminal and the printer's wake-up are ready for one and the same wait
                # -- the first key alone; once the child says it is handling it (`H`), the other keys and the message
                nh = sum(1 for l in s.obs if l == "H")
                os.write(s.master, ev[3][:1])
                s.sent += 1
                t0 = time.time()
                while len(ev[3]) > 1 and time.time() - t0 < 2.0:
                    s._drain()
                    if sum(1 for l in s.obs if l == "H") > nh or s._exited():
                        break
                    time.sleep(0.0003)
                if len(ev[3]) > 1:
                    os.write(s.master, ev[3][1:])
                    s.sent += len(ev[3]) - 1
                statuses.append(s.tell_printer(ev[1], ev[2], wait=False))
            elif ev[0] == "flood":
                # one printer thread is told to print a long series of messages at once, and meanwhile `ev[2]` short reads are ended
                # by Enter keys, each sent as soon as the previous read has returned (plus 0-1.6 ms; an Enter sent earlier could be
                # read together with the previous one and dropped with that read's buffer): prints keep meeting the moments at
                # which a read starts or ends. Then wait until every print call has returned.
                os.write(s.ctl_w, "".join("%d %s\n" % (th, hx) for (th, hx) in ev[1]).encode())
                nr = sum(1 for l in s.obs if l.startswith("R "))
                for i in range(ev[2]):
                    os.write(s.master, b"\r")
                    s.sent += 1
                    t0 = time.time()
                    while time.time() - t0 < 5.0:
                        s._drain()
                        if sum(1 for l in s.obs[-40:] if l.startswith("R ")) and sum(1 for l in s.obs if l.startswith("R ")) >= nr + i + 1:
                            break
                        if s._exited():
                            break
                    t_end = time.time() + (i % 5) * 0.0004
                    while time.time() < t_end:
                        s._drain()
                t0 = time.time()
                while time.time() - t0 < s.timeout:
                    s._drain()
                    if sum(1 for l in s.obs if l.startswith("P ")) >= len(ev[1]) or s._exited():
                        break
                    time.sleep(0.0005)
                time.sleep(0.003)
                statuses.append(s.wait_quiet())
                s.rebase()
            elif ev[0] == "winch_blocked":
                # a resize while NOTHING is read from the terminal: the child is (or soon will be) blocked writing a message
                # larger than the pty takes, and the signal interrupts that write
                time.sleep(0.25)
                fcntl.ioctl(s.master, termios.TIOCSWINSZ, struct.pack("HHHH", rows, ev[1], 0, 0))
                time.sleep(0.25)
            elif ev[0] == "wait_acks":
                # a burst was handed over: wait until every print call has returned, then for quiescence
                t0 = time.time()
                while time.time() - t0 < s.timeout:
                    s._drain()
                    if sum(1 for l in s.obs if l.startswith("P ")) >= ev[1] or s._exited():
                        break
                    time.sleep(0.0005)
                time.sleep(0.003)
                statuses.append(s.wait_quiet())
                s.rebase()
        marks.append(len(s.out))
        obs_marks.append(len(s.obs))
        if probe:
            tio.append(s.termios_now())
    final_termios = s.termios_now()
    initial = s.initial_termios
    wedged = s.finish()
    return {"obs": s.obs, "out": bytes(s.out), "marks": marks, "obs_marks": obs_marks, "statuses": statuses,
            "wedged": wedged, "termios_initial": initial, "termios_final": final_termios, "termios_probe": tio,
            "stops": stops, "winch_marks": list(s.winch_marks)}


if __name__ == "__main__":
    exe = sys.argv[1]
    spec = "mode emacs\nprompt 3e.20\nreads 1\n"
    r = run_case(exe, spec, [b"hello", b"\x01", b"X", b"\r"])
    print(r["obs"])
    print(r["out"])
    print(r["statuses"], r["wedged"])
