"""C15: file name completion. Stream `compl` on real temporary directories."""
import itertools
import random

from common import *
from p_histfile import enc, dec

NAME_ALPHA = [0x61, 0x62, 0x20, 0x27, 0x22, 0x5c, 0x24, 0x28, 0xe9, 0x65e5, 0x60, 0x3b, 0x7e]     # (~: names that merely BEGIN with a tilde are ordinary names)
BREAKS = None
DQ = None


def load_sets():
    global BREAKS, DQ
    import gen_tables
    d = {n: v for n, _, v in gen_tables.consts(REPO)}
    parse = lambda v: [int(x) for x in v.strip("[]%N").replace("]%N", "").split(";")]
    BREAKS = parse(d["default_break_chars"])
    DQ = parse(d["double_quotes_special_chars"])


def ok_name(n):
    s = "".join(map(chr, n))
    return n and s not in (".", "..", "~") and 0x2f not in n and 0 not in n


def esc_py(s, brk):
    out = []
    for c in s:
        if c in brk:
            out.append(0x5c)
        out.append(c)
    return out


def unesc_py(s):
    out, i = [], 0
    while i < len(s):
        if s[i] == 0x5c:
            if i + 1 < len(s):
                out.append(s[i + 1])
            i += 2
        else:
            out.append(s[i])
            i += 1
    return out


def layout_tok(root, dangling=()):
    toks = ["X" + enc(list(n)) for n in dangling]
    for name, isdir, ch in root:
        toks.append(("S" if isdir == "link" else "D" if isdir else "F") + enc(name))
        for cn, cd in ch:
            toks.append(("H" if cd else "G") + enc(name) + "|" + enc(cn))
    return ",".join(toks) if toks else "_"


def gen_layout(rng):
    names = set()
    root = []
    for _ in range(rng.randint(1, 4)):
        n = tuple(rng.choice(NAME_ALPHA) for _ in range(rng.randint(1, 3)))
        if not ok_name(list(n)) or n in names:
            continue
        names.add(n)
        isdir = rng.random() < 0.35
        if isdir and rng.random() < 0.3:
            isdir = "link"         # the directory is reached through a symbolic link: still a directory to every completion
        ch = []
        if isdir:
            cn = set()
            for _ in range(rng.randint(0, 2)):
                c = tuple(rng.choice(NAME_ALPHA) for _ in range(rng.randint(1, 3)))
                if ok_name(list(c)) and c not in cn:
                    cn.add(c)
                    ch.append((list(c), rng.random() < 0.3))
        root.append((list(n), isdir, ch))
    return root


PREFIXES = [[], [0x78, 0x20], [0x6c, 0x73, 0x20, 0x2d, 0x6c, 0x20], [0x61, 0x3d], [0xe9, 0x20]]


def typed(prefix, ctx, partial):
    if ctx == "bare":
        return prefix + esc_py(partial, BREAKS)
    if ctx == "double":
        return prefix + [0x22] + esc_py(partial, DQ)
    return prefix + [0x27] + partial


def expected(root, path):
    """entries of the addressed directory whose names start with the partial name"""
    if 0x2f in path:
        i = len(path) - 1 - path[::-1].index(0x2f)
        dname, fname = path[:i + 1], path[i + 1:]
        d = [e for e in root if e[0] == dname[:-1] and e[1]]
        if not d or 0x2f in dname[:-1]:
            return dname, []
        ents = d[0][2]
    else:
        dname, fname = [], path
        ents = [(n, isd) for n, isd, _ in root]
    return dname, sorted([(n, isd) for n, isd in ents if n[:len(fname)] == fname], key=lambda e: "".join(map(chr, e[0])).encode())


def parse_res(o):
    """`start cands` -> (start, [(display, replacement)])"""
    if o in ("panic", "err"):
        return o, []
    st, c = o.split(" ", 1)
    if c == "_":
        return int(st), []
    return int(st), [tuple(dec(x) for x in p.split("=")) for p in c.split(",")]


def blen(s):
    return len("".join(map(chr, s)).encode("utf-8"))


def c15_corr(res, exe, driver, tier, seed, tmp):
    load_sets()
    rng = random.Random(seed * 41 + 2)
    n = 3000 if tier == "thorough" else 400
    cases = []   # (line, meta)
    for it in range(n):
        root = gen_layout(rng)
        if it % 25 == 0:
            root = [r for r in root if r[0][:1] != [0x7e]] + [([0x7e, 0x62, 0x61, 0x6b], True, [([0x66, 0x31], False), ([0x73, 0x75, 0x62], True)])]
        if not root:
            continue
        # sometimes a dangling symbolic link lies in the directory too: never offered, never in the way
        dang = []
        if rng.random() < 0.25:
            used = {tuple(n) for n, _, _ in root}
            d = tuple(rng.choice(NAME_ALPHA) for _ in range(rng.randint(1, 3)))
            if ok_name(list(d)) and d not in used:
                dang = [d]
        lt = layout_tok(root, dang)
        targets = []
        for name, isdir, ch in root:
            targets.append(name)
            for cn, cd in ch:
                targets.append(name + [0x2f] + cn)
        lines, metas = [], []
        for t in targets:
            for ctx in ("bare", "double", "single"):
                if ctx == "single" and 0x27 in t:
                    continue
                cuts = range(len(t) + 1) if tier == "thorough" else sorted(set(rng.sample(range(len(t) + 1), min(2, len(t) + 1))))
                for k in cuts:
                    pre = rng.choice(PREFIXES)
                    lines.append(typed(pre, ctx, t[:k]))
                    metas.append({"ctx": ctx, "prefix": pre, "partial": t[:k], "root": root})
        if lines:
            # text AFTER the cursor (quotes, blanks, backslashes) must not matter: only line[..pos] is the partial path
            TAILS = [[0x22], [0x27], [0x20, 0x22, 0x78], [0x20, 0x74], [0x22, 0x20, 0x22], [0x5c], [0x27, 0x20, 0x61], [0x2f, 0x78]]
            toks = []
            for l in lines:
                tok = enc(l) if l else "-"
                if rng.random() < 0.4:
                    tok += "|" + enc(rng.choice(TAILS))
                toks.append(tok)
            cases.append(("path %s %s" % (lt, " ".join(toks)), metas, lines, lt))
    impl = run_impl(exe, "compl", [c[0] for c in cases], tmp)
    if driver:
        model = run_model(driver, "compl", [c[0] for c in cases], tmp)
        compare(res, "compl", [c[0] for c in cases], impl, model)
    res.evaluations += sum(len(c[1]) for c in cases)
    second = []
    ctxs = {"bare": 0, "double": 0, "single": 0}
    for (case, metas, lines, lt), o in zip(cases, impl):
        outs = o.split(" ; ")
        for m, line, oo in zip(metas, lines, outs):
            ctxs[m["ctx"]] += 1
            start, cands = parse_res(oo)
            why = None
            dname, exp = expected(m["root"], m["partial"])
            q = 1 if m["ctx"] != "bare" else 0
            if start in ("panic", "err"):
                why = "complete_path: %s" % start
            elif start != blen(m["prefix"]) + q:
                why = "start %s, expected %d" % (start, blen(m["prefix"]) + q)
            elif [c[0] for c in cands] != [e[0] for e in exp]:
                why = "candidates %r, expected exactly the entries starting with the partial name %r" % (
                    [c[0] for c in cands], [e[0] for e in exp])
            else:
                for (disp, repl), (name, isd) in zip(cands, exp):
                    full = dname + name + ([0x2f] if isd else [])
                    back = repl if m["ctx"] == "single" else unesc_py(repl)
                    if back != full:
                        why = "replacement %r does not read back as %r" % (repl, full)
                    if any(ch in (0x20, 0x27, 0x22, 0x5c, 0x24, 0x28) for ch in name):
                        res.nontrivial.add(enc(line) + "/" + enc(name))
                    # completing again from the inserted text (inside single quotes a name with a
                    # single quote cannot be written at all: not considered, as the property says)
                    if m["ctx"] == "single" and 0x27 in full:
                        continue
                    l2 = m["prefix"] + ([0x22] if m["ctx"] == "double" else [0x27] if m["ctx"] == "single" else []) + repl
                    second.append(("path %s %s" % (lt, enc(l2)), {"name": name, "isd": isd, "repl": repl, "start": start,
                                                                 "root": m["root"], "full": full, "first": enc(line)}))
            if why:
                res.oracle_failures.append({"stream": "compl", "case": "path %s %s" % (lt, enc(line) if line else "-"),
                                            "impl": oo, "why": why})
    if tier != "thorough" and len(second) > 6000:
        second = rng.sample(second, 6000)
    impl2 = run_impl(exe, "compl", [c[0] for c in second], tmp)
    if driver:
        model2 = run_model(driver, "compl", [c[0] for c in second], tmp)
        compare(res, "compl-again", [c[0] for c in second], impl2, model2)
    res.evaluations += len(second)
    for (case, m), o in zip(second, impl2):
        start, cands = parse_res(o)
        why = None
        if start != m["start"]:
            why = "after inserting the candidate, completion starts at %s instead of %s" % (start, m["start"])
        elif not m["isd"]:
            if (m["name"], m["repl"]) not in cands:
                why = "the inserted candidate %r is not offered again (got %r)" % (m["name"], cands)
        else:
            _, exp = expected(m["root"], m["full"])
            if [c[0] for c in cands] != [e[0] for e in exp]:
                why = "inserted directory %r does not read back as that directory" % (m["full"],)
        if why:
            res.oracle_failures.append({"stream": "compl-again", "case": case, "impl": o, "why": why})
    # longest common prefix
    lcp_alpha = [0x61, 0x62, 0xe9, 0xea, 0x65e5, 0x65e6, 0x1f600, 0x1f601, 0x5c, 0x20]
    lcases = ["lcp"]
    for _ in range(n * 3):
        stem = [rng.choice(lcp_alpha) for _ in range(rng.randint(0, 3))]
        k = rng.choice([1, 2, 2, 3, 4])
        cs = [stem + [rng.choice(lcp_alpha) for _ in range(rng.randint(0, 2))] for _ in range(k)]
        lcases.append("lcp " + " ".join(enc(c) if c else "-" for c in cs))
    impl3 = run_impl(exe, "compl", lcases, tmp)
    if driver:
        model3 = run_model(driver, "compl", lcases, tmp)
        compare(res, "compl-lcp", lcases, impl3, model3)
    res.evaluations += len(lcases)
    for c, o in zip(lcases, impl3):
        cs = [dec(t) for t in c.split()[1:]]
        why = None
        if o == "panic":
            why = "longest_common_prefix panicked"
        elif not cs:
            exp = "none"
        elif len(cs) == 1:
            exp = "some:" + enc(cs[0])
        else:
            k = 0
            while all(len(x) > k for x in cs) and all(x[k] == cs[0][k] for x in cs):
                k += 1
            exp = "some:" + enc(cs[0][:k]) if k else "none"
        if not why and o != exp:
            why = "longest common prefix %s, expected %s" % (o, exp)
        if why:
            res.oracle_failures.append({"stream": "compl-lcp", "case": c, "impl": o, "why": why})
        if len(cs) > 1 and any(x >= 0x80 for y in cs for x in y):
            res.nontrivial.add(c)
    res.rule = ("compl stream: real temporary directory trees (1-4 entries, sub-directories with 0-2 entries, names of 1-3 chars "
                "over {a,b,blank,',\",\\,$,(,`,;,e-acute,CJK}); for every entry and split point (quick: 2 sampled), in the three "
                "quoting contexts, after prefixes ending in a break character: complete_path on the typed text, then again "
                "on the text with each candidate inserted; plus random candidate sets for longest_common_prefix over 1-4 byte "
                "characters sharing leading bytes. Non-trivial = the name needs quoting / the candidates contain multi-byte chars.")
    res.distribution = {"contexts": ctxs, "second_round": len(second), "lcp_sets": len(lcases)}
    res.samples = [{"case": cases[0][0][:300], "impl": impl[0][:300]}] if cases else []
