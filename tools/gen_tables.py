"""Translators: Rust source -> Coq (Gen/*.v) and -> data files, run on every
check. They fail loudly (TranslatorError = correspondence broken) when the
pattern they rely on no longer matches the source."""
import glob
import os
import re


class TranslatorError(Exception):
    pass


def _read(repo, rel):
    p = os.path.join(repo, rel)
    try:
        return open(p, encoding="utf-8").read()
    except OSError as e:
        raise TranslatorError("cannot read %s: %s" % (p, e))


def _must(pattern, src, what, flags=0):
    m = re.search(pattern, src, flags)
    if not m:
        raise TranslatorError("pattern for %s not found" % what)
    return m


def _nlist(s):
    return "[" + "; ".join(str(ord(c)) for c in s) + "]%N"


def _rust_char(lit):
    """'x' | '\\n' | '\\\\' | '\\'' | '\\0' | '\\u{..}' -> code point"""
    body = lit[1:-1]
    if body.startswith("\\u{"):
        return int(body[3:-1], 16)
    esc = {"\\n": 10, "\\r": 13, "\\t": 9, "\\\\": 92, "\\'": 39, '\\"': 34, "\\0": 0}
    if body in esc:
        return esc[body]
    if body.startswith("\\x"):
        return int(body[2:], 16)
    if len(body) == 1:
        return ord(body)
    raise TranslatorError("char literal %s" % lit)


CHAR_LIT = r"'(?:\\u\{[0-9a-fA-F]+\}|\\x[0-9a-fA-F]{2}|\\.|[^'\\])'"


def consts(repo):
    """Named constants the model uses, as (name, coq_type, coq_value)."""
    out = []
    hist = _read(repo, "src/history.rs")
    m = _must(r'const\s+FILE_VERSION_V2\s*:\s*&\'static\s+str\s*=\s*"([^"]*)"', hist, "FILE_VERSION_V2")
    out.append(("file_version_v2", "list N", _nlist(m.group(1))))

    lb = _read(repo, "src/line_buffer.rs")
    m = _must(r"const\s+MAX_LINE\s*:\s*usize\s*=\s*(\d+)", lb, "MAX_LINE")
    out.append(("max_line", "N", m.group(1) + "%N"))
    m = _must(r'const\s+INDENT\s*:\s*&str\s*=\s*"( *)"', lb, "INDENT")
    out.append(("indent_max", "nat", str(len(m.group(1)))))

    lib = _read(repo, "src/lib.rs")
    m = _must(r"KillRing::new\((\d+)\)", lib, "kill ring size")
    out.append(("kill_ring_size", "nat", m.group(1)))

    cfg = _read(repo, "src/config.rs")
    m = _must(r"max_history_size:\s*(\d+)", cfg, "default max_history_size")
    out.append(("default_max_history_size", "nat", m.group(1)))
    m = _must(r"tab_stop:\s*(\d+)", cfg, "default tab_stop")
    out.append(("default_tab_stop", "nat", m.group(1)))
    m = _must(r"indent_size:\s*(\d+)", cfg, "default indent_size")
    out.append(("default_indent_size", "nat", m.group(1)))
    m = _must(r"completion_prompt_limit:\s*(\d+)", cfg, "default completion_prompt_limit")
    out.append(("default_completion_prompt_limit", "nat", m.group(1)))

    comp = _read(repo, "src/completion.rs")
    # the unix branch of the cfg_if block
    m = _must(r"if #\[cfg\(unix\)\] \{(.*?)\} else if #\[cfg\(windows\)\]", comp, "unix completion constants", re.S)
    unix = m.group(1)
    m = _must(r"const fn default_break_chars\(c\s*:\s*char\) -> bool \{\s*matches!\(c,(.*?)\)\s*\}", unix,
              "default_break_chars", re.S)
    chars = [_rust_char(c) for c in re.findall(CHAR_LIT, m.group(1))]
    if len(chars) < 5:
        raise TranslatorError("default_break_chars: %d chars" % len(chars))
    out.append(("default_break_chars", "list N", "[" + "; ".join(map(str, chars)) + "]%N"))
    m = _must(r"const ESCAPE_CHAR: Option<char> = Some\((" + CHAR_LIT + r")\)", unix, "ESCAPE_CHAR")
    out.append(("escape_char", "N", str(_rust_char(m.group(1))) + "%N"))
    m = _must(r"const fn double_quotes_special_chars\(c\s*:\s*char\) -> bool \{\s*matches!\(c,(.*?)\)\s*\}", unix,
              "double_quotes_special_chars", re.S)
    chars = [_rust_char(c) for c in re.findall(CHAR_LIT, m.group(1))]
    out.append(("double_quotes_special_chars", "list N", "[" + "; ".join(map(str, chars)) + "]%N"))
    m = _must(r"const DOUBLE_QUOTES_ESCAPE_CHAR: Option<char> = Some\((" + CHAR_LIT + r")\)", comp,
              "DOUBLE_QUOTES_ESCAPE_CHAR")
    out.append(("double_quotes_escape_char", "N", str(_rust_char(m.group(1))) + "%N"))
    return out


def _poison(path, what, err):
    """the translation failed: the generated file says so in a way that does not compile, so that exactly the theories
    depending on it fail to build (and name the translator in the error); the others are unaffected"""
    from common import write_if_changed
    msg = str(err).replace("*)", "* )").replace('"', "'")
    write_if_changed(path, "(* GENERATED: the translation of %s FAILED: %s *)\n"
                           "Definition translator_failed : False := \"tools/gen_tables.py: %s\".\n" % (what, msg, msg))


def generate(repo, gen_dir):
    """Every table is translated on its own: a pattern that no longer matches the source breaks the build of the
    theories that use THAT table, not of everything."""
    from common import write_if_changed
    try:
        body = ["(* GENERATED on every check by tools/gen_tables.py from %s -- do not edit. *)" % "/repo/src",
                "From Coq Require Import List NArith.", "Import ListNotations.", ""]
        for name, ty, val in consts(repo):
            body.append("Definition %s : %s := %s." % (name, ty, val))
        write_if_changed(os.path.join(gen_dir, "GenConsts.v"), "\n".join(body) + "\n")
    except TranslatorError as e:
        _poison(os.path.join(gen_dir, "GenConsts.v"), "the constants", e)
    try:
        generate_esc(repo, gen_dir)
    except TranslatorError as e:
        _poison(os.path.join(gen_dir, "GenEscSeq.v"), "the escape-sequence tables of src/tty/unix.rs", e)


# ---------------------------------------------------------------- Unicode segmentation tables

def _useg_tables(repo):
    if os.path.exists(os.path.join(repo, "Cargo.lock")):
        lock = _read(repo, "Cargo.lock")
    else:  # a scratch worktree: Cargo.lock is not tracked; the harness carries a copy of /repo's
        lock = _read(os.path.dirname(os.path.dirname(os.path.abspath(__file__))), "harness/Cargo.lock")
    m = _must(r'name = "unicode-segmentation"\s*\nversion = "([^"]+)"', lock, "unicode-segmentation version")
    ver = m.group(1)
    cands = glob.glob(os.path.expanduser("~/.cargo/registry/src/*/unicode-segmentation-%s/src/tables.rs" % ver))
    cands += glob.glob(os.path.join(repo, "vendor", "unicode-segmentation*", "src", "tables.rs"))
    if not cands:
        raise TranslatorError("unicode-segmentation %s sources not found" % ver)
    return open(cands[0], encoding="utf-8").read()


def gcat_dump(repo):
    src = _useg_tables(repo)
    m = _must(r"const grapheme_cat_table: &\[\(char, char, GraphemeCat\)\] = &\[(.*?)\];", src,
              "grapheme_cat_table", re.S)
    ents = re.findall(r"\('\\u\{([0-9a-fA-F]+)\}',\s*'\\u\{([0-9a-fA-F]+)\}',\s*(GC_\w+)\)", m.group(1))
    if len(ents) < 1000:
        raise TranslatorError("grapheme_cat_table: only %d entries parsed" % len(ents))
    out = "gcat " + " ".join("%s:%s:%s" % e for e in ents) + "\n"
    m = _must(r"const InCB_Extend_table: &\[\(char, char\)\] = &\[(.*?)\];", src, "InCB_Extend_table", re.S)
    rs = re.findall(r"\('\\u\{([0-9a-fA-F]+)\}',\s*'\\u\{([0-9a-fA-F]+)\}'\)", m.group(1))
    if len(rs) < 100:
        raise TranslatorError("InCB_Extend_table: only %d entries parsed" % len(rs))
    out += "range incb_extend " + ",".join("%s-%s" % r for r in rs) + "\n"
    m = _must(r"pub fn is_incb_linker\(c: char\) -> bool \{\s*matches!\(c,(.*?)\)\s*\}", src, "is_incb_linker", re.S)
    ls = re.findall(r"'\\u\{([0-9a-fA-F]+)\}'", m.group(1))
    if not ls:
        raise TranslatorError("is_incb_linker: nothing parsed")
    out += "range incb_linker " + ",".join("%s-%s" % (x, x) for x in sorted(ls, key=lambda h: int(h, 16))) + "\n"
    return out


# ---------------------------------------------------------------- escape-sequence tables (tty/unix.rs)

def _fn_body(src, name, nxt):
    i = src.find("fn %s(" % name)
    j = src.find("fn %s(" % nxt, i + 1) if nxt else len(src)
    if i < 0 or j < 0:
        raise TranslatorError("function %s not found" % name)
    return src[i:j]


def _match_blocks(body):
    """[(scrutinee text, arms text)] for every `match X {` whose arms build key events, in source order."""
    out = []
    for m in re.finditer(r"match\s+(\([^)]*\)|\w+)\s*\{", body):
        depth, k = 1, m.end()
        while depth and k < len(body):
            if body[k] == "{":
                depth += 1
            elif body[k] == "}":
                depth -= 1
            k += 1
        out.append((m.group(1), body[m.end():k - 1]))
    return out


_KEYNAMES = {"Up": "KUp", "Down": "KDown", "Left": "KLeft", "Right": "KRight", "Home": "KHome", "End": "KEnd",
             "Insert": "KInsert", "Delete": "KDelete", "PageUp": "KPageUp", "PageDown": "KPageDown",
             "BackTab": "KBackTab", "UnknownEscSeq": "KUnknown", "BracketedPasteStart": "KPasteStart",
             "BracketedPasteEnd": "KPasteEnd", "Enter": "KEnter"}


def _mods(name):
    parts = name.split("_")
    return "(mkMods %s %s %s)" % tuple("true" if x in parts else "false" for x in ("CTRL", "ALT", "SHIFT"))


def _arms(arms, consts, what):
    res = []
    for line in arms.split("\n"):
        s = line.strip()
        if not s or s.startswith("//") or s.startswith("_") or s.startswith("debug!") or s.startswith('"') \
                or s in ("}", "{", "})") or s.startswith("E(K::UnknownEscSeq"):
            continue
        m = re.match(r"(.+?)\s*=>\s*(E\(K::(\w+)(?:\((\d+|'.')\))?,\s*M::(\w+)\)|E::ENTER),?\s*(//.*)?$", s)
        if not m:
            raise TranslatorError("%s: cannot parse arm: %s" % (what, s))
        pat = m.group(1).strip()
        if m.group(2) == "E::ENTER":
            key = "(KEnter, mkMods false false false)"
        else:
            kname, karg, mods = m.group(3), m.group(4), m.group(5)
            if kname == "F":
                kc = "(KF %s)" % karg
            elif kname == "Char":
                kc = "(KChar %d%%N)" % ord(karg[1])
            elif kname in _KEYNAMES:
                kc = _KEYNAMES[kname]
            else:
                raise TranslatorError("%s: unknown key %s" % (what, kname))
            key = "(%s, %s)" % (kc, _mods(mods))

        def item(t):
            t = t.strip()
            if re.fullmatch(CHAR_LIT, t):
                return _rust_char(t)
            if t in consts:
                return consts[t]
            raise TranslatorError("%s: unknown pattern item %s" % (what, t))
        if pat.startswith("("):
            items = [item(t) for t in pat[1:-1].split(",")]
            res.append((items, key))
        else:
            for alt in pat.split("|"):
                res.append(([item(alt)], key))
    if not res:
        raise TranslatorError("%s: empty table" % what)
    return res


def esc_tables(repo):
    src = _read(repo, "src/tty/unix.rs")
    consts = {}
    for m in re.finditer(r"^const (\w+): char = (" + CHAR_LIT + r");", src, re.M):
        consts[m.group(1)] = _rust_char(m.group(2))
    for need in ("UP", "DOWN", "RIGHT", "LEFT", "END", "HOME", "INSERT", "DELETE", "PAGE_UP", "PAGE_DOWN", "RXVT_HOME",
                 "RXVT_END", "SHIFT", "ALT", "ALT_SHIFT", "CTRL", "CTRL_SHIFT", "CTRL_ALT", "CTRL_ALT_SHIFT", "RXVT_SHIFT",
                 "RXVT_CTRL", "RXVT_CTRL_SHIFT"):
        if need not in consts:
            raise TranslatorError("constant %s not found in tty/unix.rs" % need)
    tabs = []
    csi = _match_blocks(_fn_body(src, "escape_csi", "extended_escape"))
    # escape_csi has: match seq2 {'0'|'9' ...} (no E(K::X) arms except Unknown), match seq3 {...}, match seq2 {ANSI}
    ansi = [a for s, a in csi if s == "seq2" and "K::Up" in a]
    linux = [a for s, a in csi if s == "seq3" and "K::F(1)" in a]
    if len(ansi) != 1 or len(linux) != 1:
        raise TranslatorError("escape_csi: tables not found")
    tabs.append(("tab_csi_ansi", _arms(ansi[0], consts, "tab_csi_ansi")))
    tabs.append(("tab_csi_linux", _arms(linux[0], consts, "tab_csi_linux")))
    ext = _match_blocks(_fn_body(src, "extended_escape", "escape_o"))
    want = [("seq2", "tab_ext_tilde"), ("(seq2, seq3)", "tab_ext_2d_tilde"), ("(seq2, seq3, seq5)", "tab_ext_2d_mod_tilde"),
            ("(seq2, seq3, seq4)", "tab_ext_3d_tilde"), ("(seq4, seq5)", "tab_ext_1_mod"),
            ("(seq2, seq4)", "tab_ext_mod_tilde"), ("(seq2, seq3)", "tab_ext_rxvt")]
    ext = [(s, a) for s, a in ext if "E(K::" in a]
    if [s for s, _ in ext] != [w for w, _ in want]:
        raise TranslatorError("extended_escape: match blocks are %r" % [s for s, _ in ext])
    for (s, a), (_, name) in zip(ext, want):
        tabs.append((name, _arms(a, consts, name)))
    ss3 = [a for s, a in _match_blocks(_fn_body(src, "escape_o", "poll")) if s == "seq2"]
    if len(ss3) != 1:
        raise TranslatorError("escape_o: table not found")
    tabs.append(("tab_ss3", _arms(ss3[0], consts, "tab_ss3")))
    return tabs


def generate_esc(repo, gen_dir):
    from common import write_if_changed
    body = ["(* GENERATED on every check by tools/gen_tables.py from src/tty/unix.rs -- do not edit. *)",
            "From Coq Require Import List NArith.", "From RL Require Import Keys.", "Import ListNotations.", ""]
    for name, rows in esc_tables(repo):
        body.append("Definition %s : list (list N * key) :=" % name)
        body.append("  [" + ";\n   ".join("([%s]%%N, %s)" % ("; ".join(str(c) for c in pat), key) for pat, key in rows) + "].")
        body.append("")
    write_if_changed(os.path.join(gen_dir, "GenEscSeq.v"), "\n".join(body) + "\n")
