"""C09: in-memory / file history store. Stream `hist`."""
import random

from common import *
from p_histfile import enc, dec

ALPHA = [0x61, 0x62, 0x20, 0x09, 0xe9, 0x3000, 0x65e5, 0x1f600, 0x301]


def ws_table():
    """char::is_whitespace ranges, from the implementation's own dump."""
    for line in open(os.path.join(CACHE, "udata.txt")):
        if line.startswith("range whitespace "):
            rs = line.split()[2].split(",")
            return [(int(a, 16), int(b, 16)) for a, b in (r.split("-") for r in rs)]
    raise InfraError("no whitespace table")


def rand_line(rng):
    n = rng.choice([0, 1, 1, 1, 2, 2, 3])
    return [rng.choice(ALPHA) for _ in range(n)]


def hist_cases(tier, seed):
    rng = random.Random(seed * 7919 + 3)
    n = 30000 if tier == "thorough" else 3000
    cases = []
    pool_sizes = [0, 1, 2, 3, 4, 5]
    for k in range(n):
        kind = "mem" if k % 2 == 0 else "file"
        mx = rng.choice(pool_sizes)
        head = "%s %d %d %d" % (kind, mx, rng.random() < 0.4, rng.random() < 0.5)
        ops = []
        pool = [rand_line(rng) for _ in range(rng.randint(1, 4))]
        for _ in range(rng.randint(1, 40 if tier == "thorough" else 25)):
            r = rng.random()
            pick = lambda: rng.choice(pool) if rng.random() < 0.7 else rand_line(rng)
            if r < 0.45:
                ops.append("%s %s" % (rng.choice(["add", "addo"]), enc(pick())))
            elif r < 0.52:
                ops.append("setmax %d" % rng.choice(pool_sizes))
            elif r < 0.57:
                ops.append("dups %d" % rng.randint(0, 1))
            elif r < 0.62:
                ops.append("space %d" % rng.randint(0, 1))
            elif r < 0.64:
                ops.append("clear")
            elif r < 0.72:
                ops.append("get %d" % rng.randint(0, 6))
            elif r < 0.75:
                ops.append("len")
            else:
                t = pick()
                if t and rng.random() < 0.5:
                    i = rng.randrange(len(t))
                    t = t[i:i + rng.randint(1, 2)]
                ops.append("%s %s %d %s" % (rng.choice(["search", "sw"]), enc(t), rng.randint(0, 6),
                                            rng.choice("fr")))
        cases.append(head + " ; " + " ; ".join(ops))
    return cases


def blen(s):
    return len("".join(map(chr, s)).encode("utf-8"))


def find_sub(t, s):
    for i in range(len(s) - len(t) + 1):
        if s[i:i + len(t)] == t:
            return blen(s[:i])
    return None


def oracle(case, out, ws):
    """The property statement, evaluated on the implementation's answers: a
    ghost log of the lines add accepted. Returns None or a reason."""
    parts = [p.strip() for p in case.split(";")]
    head = parts[0].split()
    mx, igs, igd = int(head[1]), head[2] == "1", head[3] == "1"
    acc, k = [], 0
    outs = out.split(";")
    if len(outs) != len(parts) - 1:
        return "result count"
    isws = lambda c: any(a <= c <= b for a, b in ws)
    for op, r in zip(parts[1:], outs):
        t = op.split()
        entries = acc[len(acc) - k:] if k else []
        if r == "panic" or r == "err":
            return "%s on %s" % (r, op)
        if t[0] in ("add", "addo"):
            l = dec(t[1])
            refused = (not l) or mx == 0 or (igs and isws(l[0])) or (igd and entries and entries[-1] == l)
            if r != ("b0" if refused else "b1"):
                return "add answered %s but the line is %s" % (r, "refused" if refused else "acceptable")
            if r == "b1":
                acc.append(l)
                k = min(k + 1, mx)
        elif t[0] == "setmax":
            mx = int(t[1])
            k = min(k, mx)
        elif t[0] == "dups":
            igd = t[1] == "1"
        elif t[0] == "space":
            igs = t[1] == "1"
        elif t[0] == "clear":
            acc, k = [], 0
        elif t[0] == "len":
            if r != "n:%d" % k:
                return "len %s, expected %d" % (r, k)
        elif t[0] == "get":
            i = int(t[1])
            exp = "e:" + enc(entries[i]) if i < len(entries) else "e:none"
            if r != exp:
                return "get %d = %s, expected %s" % (i, r, exp)
        elif t[0] in ("search", "sw"):
            term, start, d = dec(t[1]), int(t[2]), t[3]
            test = (lambda e: find_sub(term, e)) if t[0] == "search" else \
                (lambda e: blen(term) if e[:len(term)] == term else None)
            exp = "s:none"
            if term and start < len(entries):
                rng_ = range(start, len(entries)) if d == "f" else range(start, -1, -1)
                for i in rng_:
                    c = test(entries[i])
                    if c is not None:
                        exp = "s:%d,%d,%s" % (i, c, enc(entries[i]))
                        break
            if r != exp:
                return "%s = %s, expected nearest match %s" % (op, r, exp)
    return None


def c09_corr(res, exe, driver, tier, seed, tmp):
    ws = ws_table()
    cases = hist_cases(tier, seed)
    impl = run_impl(exe, "hist", cases, tmp)
    if driver:
        model = run_model(driver, "hist", cases, tmp)
        compare(res, "hist", cases, impl, model)
    res.evaluations += len(cases)
    opk = {}
    hits = 0
    for c, o in zip(cases, impl):
        why = oracle(c, o, ws)
        if why:
            res.oracle_failures.append({"stream": "hist", "case": c, "impl": o, "why": why})
        for p in c.split(";")[1:]:
            kname = p.split()[0]
            opk[kname] = opk.get(kname, 0) + 1
        # non-trivial: some add refused, some add accepted, and a search that hit
        if "b0" in o and "b1" in o and "s:" in o.replace("s:none", ""):
            res.nontrivial.add(c)
        hits += o.count("s:") - o.count("s:none")
    res.rule = ("hist stream: random op sequences (add, add_owned, set_max_len, ignore_dups, ignore_space, clear, get, "
                "search, starts_with, len) on MemHistory and FileHistory alternately, limits 0..5, lines of 0..3 chars over "
                "{a,b,blank,TAB,e-acute,U+3000,CJK,emoji,combining acute} drawn mostly from a small per-case pool so that "
                "duplicates and matches occur; start indexes 0..6 (out of range included), both directions. "
                "Non-trivial = the case has a refused add, an accepted add and a search hit; distinct by case text.")
    res.distribution = {"ops": opk, "search_hits": hits}
    res.samples = [{"case": c, "impl": o} for c, o in list(zip(cases, impl))[:3]]
