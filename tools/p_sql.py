"""C20: the SQLite history. Stream `sqlhist`: op sequences on temporary databases (add, get in both
directions, len, set_max_len, close + reopen), model vs implementation; the full-text search clause has
no model: it is judged by an oracle on the implementation's answers only."""
import random

from common import *
from p_histfile import enc, dec

ENTRIES = ["a", "ab", " a", "b", "é", "a b", "git status", "ls -l src", "echo git", "Git log", "make git-hooks", "x", "",
           "日本", "a", "b", "two words", "\tx", "\u3000wide blank", "\u00a0nbsp", "\u2003em", "\x0bvt", "\u3000", "écho héllo", "日本語 go", "ééé", "İİİ sort x", "echo 273\u212a ok", "İ ls"]
TERMS = ["a", "git", "g", "ls", "src", "G", "é", "b", "status", "xyz", "éch", "日本", "éé", "É", "sort", "ok"]
ODD_TERMS = ["\"", "(", "-l", "a b", "ls!!", "*", "AND", "a\"b", "'", "a-b", ".", "^a", "日"]


def sql_cases(tier, seed):
    rng = random.Random(seed * 2213 + 47)
    n = 6000 if tier == "thorough" else 400
    cases = []
    for _ in range(n):
        mx = rng.choice([0, 1, 2, 3, 5, 100, 100])
        head = "%d %d %d" % (mx, rng.random() < 0.3, rng.random() < 0.6)
        ops, count = [], 0
        for _ in range(rng.randint(3, 40)):
            r = rng.random()
            if r < 0.45:
                ops.append("add " + enc([ord(c) for c in rng.choice(ENTRIES)]))
                count += 1
            elif r < 0.70:
                ops.append("get %d %s" % (rng.randint(0, count + 1), rng.choice("fr")))
            elif r < 0.78:
                ops.append("len")
            elif r < 0.84:
                ops.append("setmax %d" % rng.choice([0, 1, 2, 3, 5, 100]))
            elif r < 0.88:
                ops.append(rng.choice(["reopen", "reopen", "load"]))      # (load: History::load of its own path on the open object)
            elif r < 0.90:
                ops.append("reopen2 %d 0" % (rng.random() < 0.3))     # the same database under the always-add policy from now on
            elif r < 0.915:
                # the policies switched on the OPEN object (also back and forth, also after lines of this session)
                ops.append(rng.choice(["setdups 0", "setdups 1", "setdups 0", "setspace 0", "setspace 1"]))
            elif r < 0.93:
                ops.append(rng.choice(["save", "save", "append"]))     # to the database's own path: nothing may change
            else:
                ops.append("%s %s %d %s" % (rng.choice(["search", "sw"]), enc([ord(c) for c in rng.choice(TERMS)]),
                                            rng.randint(0, count + 1), rng.choice("fr")))
        # walk: from the newest to the oldest and back, the way history navigation does
        if rng.random() < 0.5:
            ops.append("reopen")
        ops.append("len")
        ops += ["walk"]
        cases.append((head, ops))
    # row ids that are not 1..n (old rows trimmed, or replaced duplicates), then a save to the database's own path, then
    # searches and a walk: nothing a save does may disturb what is found or walked (both duplicate policies)
    for _ in range(n // 8):
        head = "%d %d %d" % (rng.choice([100, 100, 5]), rng.random() < 0.3, rng.random() < 0.5)
        words = rng.sample(["git status", "git push", "ls", "src main", "status", "grep src", "a", "b git"], rng.randint(4, 7))
        ops = ["add " + enc([ord(c) for c in w]) for w in words]
        ops.insert(rng.randint(2, len(ops)), "setmax %d" % rng.choice([1, 2, 3]))
        ops.append("setmax 100")
        if rng.random() < 0.5:
            ops.append("add " + enc([ord(c) for c in rng.choice(words)]))
        ops.append("save")
        if rng.random() < 0.5:
            ops.append("add " + enc([ord(c) for c in rng.choice(["git log", "zz"])]))
        if rng.random() < 0.3:
            ops.append("reopen")
        for _ in range(rng.randint(2, 5)):
            ops.append("%s %s %d %s" % (rng.choice(["search", "sw"]), enc([ord(c) for c in rng.choice(["git", "status", "src", "g", "a", "ls"])]),
                                        rng.randint(0, 8), rng.choice("fr")))
        ops += ["len", "walk"]
        cases.append((head, ops))
    # a LATER session (the database closed and reopened, possibly more than once) re-enters a line an earlier session stored
    # (duplicates ignored: the older row goes), then searches whose scan passes the place of the removed row, from both ends
    for i in range(max(6, n // 16)):
        head = "100 %d 1" % (i % 3 == 0)
        words = rng.sample(["git status", "git push", "ls", "src main", "status", "grep src", "a", "b git"], rng.randint(3, 6))
        ops = ["add " + enc([ord(c) for c in w]) for w in words] + ["reopen"] * (1 + i % 2)
        again = rng.choice(words[:-1])
        ops.append("add " + enc([ord(c) for c in again]))
        if i % 2 == 0:
            # and once more in the SAME later session, after another line (the duplicate rule is per session)
            ops += ["add " + enc([ord(c) for c in rng.choice(["git log", "s2"])]), "add " + enc([ord(c) for c in again])]
        if i % 4 == 0:
            ops += ["add " + enc([ord(c) for c in "zz"]), "reopen", "add " + enc([ord(c) for c in rng.choice(words[:-1])])]
        for term in ["git", "s", again[:2], rng.choice(["status", "src", "a", "ls"])]:
            ops.append("%s %s 0 f" % (rng.choice(["search", "sw"]), enc([ord(c) for c in term])))
            ops.append("%s %s %d r" % (rng.choice(["search", "sw"]), enc([ord(c) for c in term]), len(words) + 2))
            ops.append("%s %s %d %s" % (rng.choice(["search", "sw"]), enc([ord(c) for c in term]), rng.randint(0, len(words)), rng.choice("fr")))
        ops += ["len", "walk"]
        cases.append((head, ops))
    # the duplicates policy switched inside a session, then an earlier line of THAT session entered again
    for i in range(max(6, n // 20)):
        d0 = i % 2
        head = "100 0 %d" % d0
        words = rng.sample(["a", "b", "c d", "git", "ls"], 3)
        ops = ["add " + enc([ord(c) for c in w]) for w in words[:2]]
        ops.append("setdups %d" % (1 - d0))
        ops += ["add " + enc([ord(c) for c in w]) for w in (words[2], words[0], words[1])]
        if i % 3 == 0:
            ops += ["setdups %d" % d0, "add " + enc([ord(c) for c in words[0]]), "add " + enc([ord(c) for c in words[2]]), "setdups %d" % (1 - d0)]
        if i % 4 == 1:
            ops += ["reopen", "add " + enc([ord(c) for c in words[0]])]
        ops += ["len", "walk"]
        cases.append((head, ops))
    return cases


def expand_walk(head, ops, impl_line_fn):
    return ops


def c20_corr(res, exe, driver, tier, seed, tmp):
    cases = sql_cases(tier, seed)
    # the walk is data dependent (each step starts from the index the previous one returned): run it in two
    # passes -- first everything up to the walk to learn `len`, then with a generous unrolled walk
    lines = []
    for head, ops in cases:
        body = [o for o in ops if o != "walk"]
        lines.append(head + " ; " + " ; ".join(body))
    impl1 = run_impl(exe, "sqlhist", lines, tmp)
    lines2 = []
    for (head, ops), o in zip(cases, impl1):
        outs = o.split(";")
        ln = int(outs[-1][2:]) if outs and outs[-1].startswith("n:") else 0
        body = [x for x in ops if x != "walk"]
        walk = []
        # downwards: get(i-1, r) from i = len; we cannot follow the returned index inside one line, so ask for every index
        for i in range(ln + 1, -1, -1):
            walk.append("get %d r" % i)
        for i in range(0, ln + 2):
            walk.append("get %d f" % i)
        lines2.append(head + " ; " + " ; ".join(body + walk))
    impl = run_impl(exe, "sqlhist", lines2, tmp)
    if driver:
        model = run_model(driver, "sqlhist", lines2, tmp)
        canon = lambda x: ";".join("s:?" if t.startswith("s:") else t for t in x.split(";"))
        compare(res, "sqlhist", lines2, impl, model, canon=canon)
    res.evaluations += len(lines2)
    stats = {"adds": 0, "accepted": 0, "gets": 0, "reopens": 0, "searches": 0, "search_hits": 0, "walks": 0}
    for (head, ops), line, o in zip(cases, lines2, impl):
        if o == "panic" or ";err" in ";" + o:
            res.oracle_failures.append({"stream": "sqlhist", "case": line, "impl": o, "why": "error or panic from a history operation"})
            continue
        outs = o.split(";")
        allops = [x.strip() for x in line.split(";")[1:]]
        mx, igs, igd = head.split()
        # reference: the accepted lines in order (a line re-entered in the same session counts as its newest occurrence;
        # across sessions both stay), trimmed from the old end by set_max_len
        ref, sess, cur_max = [], 0, int(mx)
        session_open = False
        for op, out in zip(allops, outs):
            t = op.split()
            if t[0] == "add":
                stats["adds"] += 1
                text = dec(t[1])
                refuse = cur_max == 0 or not text or (igs == "1" and chr(text[0]).isspace())
                if (out == "b0") != refuse:
                    res.oracle_failures.append({"stream": "sqlhist", "case": line, "impl": o,
                                                "why": "refusal: add(%s) answered %s; empty/blank/zero-limit rule says %s" % (t[1], out, "refuse" if refuse else "accept")})
                    break
                if not refuse:
                    stats["accepted"] += 1
                    if not session_open:
                        sess += 1
                        session_open = True
                    if igd == "1":
                        ref = [(s, e) for (s, e) in ref if not (s == sess and e == text)]
                    ref.append((sess, text))
            elif t[0] == "setmax":
                cur_max = int(t[1])
                if len(ref) > cur_max:
                    ref = ref[len(ref) - cur_max:]
            elif t[0] == "setspace":
                igs = t[1]
            elif t[0] == "setdups":
                dup = len(set((s_, tuple(e_)) for s_, e_ in ref)) != len(ref)
                if out == "x" and not (t[1] == "1" and igd == "0" and dup):
                    res.oracle_failures.append({"stream": "sqlhist", "case": line, "impl": o,
                                                "why": "ignore_dups(%s) failed although no session holds a line twice" % t[1]})
                    break
                if out == "u" and t[1] == "1" and igd == "0" and dup:
                    res.oracle_failures.append({"stream": "sqlhist", "case": line, "impl": o,
                                                "why": "ignore_dups(true) succeeded although a session holds a line twice"})
                    break
                if out == "u":
                    igd = t[1]
                stats["policy_switches"] = stats.get("policy_switches", 0) + 1
            elif t[0] in ("reopen", "reopen2", "load"):
                stats["reopens"] += 1
                session_open = False
                cur_max = int(mx)          # the new object is built from the same Config
                if t[0] == "reopen2":
                    igs, igd = t[1], t[2]
            elif t[0] in ("search", "sw"):
                stats["searches"] += 1
                term = "".join(chr(c) for c in dec(t[1]))
                if out == "s:err":
                    res.oracle_failures.append({"stream": "sqlhist", "case": line, "impl": o, "why": "search: %s %r returned an error" % (t[0], term)})
                    break
                if out != "s:none":
                    stats["search_hits"] += 1
                    idx, pos, ent = out[2:].split(",", 2)
                    entry = "".join(chr(c) for c in dec(ent))
                    pos = int(pos)
                    ok = entry.lower().startswith(term.lower()) if t[0] == "sw" else term.lower() in entry.lower()
                    eb = entry.encode("utf-8")
                    # an offset inside the entry: a position of its text (callers slice the entry there), not the middle of a character
                    inside = 0 <= pos <= len(eb) and (pos == len(eb) or (eb[pos] & 0xc0) != 0x80)
                    if ok and inside and t[0] == "search":
                        # the offset is WHERE the text is: the entry, from there on, starts with it (ignoring case)
                        at = eb[pos:].decode("utf-8", "replace").lower()
                        if not at.startswith(term.lower()):
                            ok = False
                            stats["offset_not_at_the_match"] = stats.get("offset_not_at_the_match", 0) + 1
                    if not ok and t[0] == "sw" and inside:
                        # class (b) of known finding K4: the first TOKEN of the entry starts with the text, the entry itself
                        # begins with characters the tokenizer skips (blanks, punctuation)
                        k0 = 0
                        while k0 < len(entry) and not entry[k0].isalnum():
                            k0 += 1
                        if k0 > 0 and entry[k0:].lower().startswith(term.lower()):
                            stats["K4_leading_separator_hits"] = stats.get("K4_leading_separator_hits", 0) + 1
                            continue
                    if not ok or not inside:
                        res.oracle_failures.append({"stream": "sqlhist", "case": line, "impl": o,
                                                    "why": "search: %s %r returned %r (offset %d), which does not %s it" % (
                                                        t[0], term, entry, pos, "start with" if t[0] == "sw" else "contain")})
                        break
        else:
            # the walk at the end: distinct rows seen going down, then up = the reference, newest first / oldest first
            k = len(allops) - len([x for x in allops if x.startswith("get")])  # not used
            nwalk = None
            tail_ops = allops[::-1]
            # walk ops are the trailing `get i r` (descending i) then `get i f` (ascending i)
            j = len(allops)
            while j > 0 and allops[j - 1].startswith("get") and allops[j - 1].endswith(" f"):
                j -= 1
            up = outs[j:]
            i = j
            while i > 0 and allops[i - 1].startswith("get") and allops[i - 1].endswith(" r") and \
                    (i == j or int(allops[i - 1].split()[1]) == int(allops[i].split()[1]) + 1 if i < j else True):
                i -= 1
            down = outs[i:j]

            def distinct(seq):
                seen, res_ = [], []
                for x in seq:
                    if x != "g:none" and x not in seen:
                        seen.append(x)
                        res_.append(dec(x.split(",", 1)[1]))
                return res_
            stats["walks"] += 1
            want = [e for (_, e) in ref]
            d, u = distinct(down), distinct(up)
            res.nontrivial.add(line[:200])
            if d != want[::-1] or u != want:
                res.oracle_failures.append({"stream": "sqlhist", "case": line, "impl": o,
                                            "why": "walk: newest-to-oldest %s / oldest-to-newest %s, entered (after limits and re-entries) %s" % (
                                                [enc(x) for x in d], [enc(x) for x in u], [enc(x) for x in want])})
    stats["sqlwalk"] = sqlwalk_corr(res, exe, tier, seed, tmp)
    res.distribution.update({"oracle": stats, "sequences": len(cases)})
    res.rule = ("sqlwalk: an Editor over an SQLiteHistory on a pty -- lines entered by an earlier session (database closed and "
                "reopened) and by the current one (re-entered lines leave holes in the row ids), then random Up / Down / C-p / C-n walks: "
                "the line shown before every key and the line returned must follow the list of held lines (oracle only, no model). "
                "sqlhist: sequences of 3-40 operations on a fresh database file -- add (entries with blanks, duplicates, multi-byte, the "
                "empty line), get in both directions at every index, len, set_max_len, close + reopen with the same settings -- with size "
                "limits 0-100 and both ignore options; the extracted model (rows in rowid order, cached maximal rowid, session, INSERT OR "
                "REPLACE under the unique index) is compared with the implementation on every answer. At the end the history is walked "
                "from the newest entry to the oldest and back: the distinct entries seen must be exactly the accepted lines in the order "
                "entered (re-entered lines at their newest position, oldest dropped by the limit). Refusals are recomputed here. Substring "
                "and prefix searches with single-word alphanumeric texts must return nothing or an entry that really contains / starts "
                "with the text ignoring case, with an offset inside it, never an error.")
    res.samples += [{"case": l[:300], "impl": o[:300]} for l, o in list(zip(lines2, impl))[:3]]
    # known finding K4: search texts that are not a single alphanumeric word
    known = {f["id"] for f in known_findings() if f["property"] == "C20" and f["status"] == "known"}
    if "K4" in known:
        wl = ["100 0 0 ; add 6c.73.20.2d.6c ; add 61.22.62 ; add 20.61 ; search 22 2 r ; search 2d.6c 2 r ; search 28 2 r ; sw 6c.73.21.21 2 r ; sw 61 2 r"]
        w = run_impl(exe, "sqlhist", wl, tmp)[0].split(";")
        bad = [x for x in w[3:7] if x == "s:err" or (x != "s:none")]
        lead = w[7] if len(w) > 7 else ""
        if bad or lead.endswith("20.61"):
            res.known_confirmed.append(("K4", "the search is SQLite full-text (token) search: texts that are not one alphanumeric word give errors or "
                                        "false matches ('\"', '-l', '(', 'ls!!' on [ls -l, a\"b,  a] answered %s) and a prefix search for 'a' returns "
                                        "the entry ' a' (%s)" % (w[3:7], lead)))


# ---------------------------------------------------------------- sqlwalk: the editor's history navigation over SQLite

def sqlwalk_cases(tier, seed):
    """an Editor whose history is an SQLiteHistory: an earlier session entered some lines (the database was closed and
    reopened), this session entered more (re-entering a line leaves a hole in the row ids); then Up / Down walks"""
    import os
    from p_tty import Case
    rng = random.Random(seed * 2311 + 5)
    n = 1200 if tier == "thorough" else 120
    pool = ["ls", "pwd", "cd src", "make", "git st", "é", "x", "ls -l", "echo a"]
    cases = []
    for k in range(n):
        s1 = [rng.choice(pool) for _ in range(rng.randint(0, 7))]
        s2 = [rng.choice(pool) for _ in range(rng.randint(0, 7))]
        keys = [rng.choice(["Up", "Up", "Down", "C-p", "C-n", "Up", "Down", "M-<", "M->"]) for _ in range(rng.randint(3, 30))]
        if rng.random() < 0.4:
            keys = ["Up"] * rng.randint(1, 14) + ["Down"] * rng.randint(1, 16)
        keys.append("Enter")
        path = "/tmp/rlsqlwalk-%d-%d-%d.sqlite3" % (os.getpid(), seed, k)
        extra = ["sqlite " + path] + ["history " + enc([ord(c) for c in e]) for e in s1] + ["history2 " + enc([ord(c) for c in e]) for e in s2]
        c = Case(keys, mode="emacs", prompt="> ", timeout=0, meta={"spec_extra": extra, "s1": s1, "s2": s2, "sync_keys": 1})
        cases.append(c)
    return cases


def sqlwalk_ref(s1, s2):
    """the lines the history holds, oldest first (ignore_dups: a line re-entered in the SAME session counts once, as its
    newest occurrence)"""
    ref = []
    for sess, lines in ((1, s1), (2, s2)):
        for e in lines:
            # (same rule as the sqlhist reference: within a session the older occurrence goes; across sessions both stay)
            ref = [(s, x) for (s, x) in ref if not (s == sess and x == e)]
            ref.append((sess, e))
    return [x for (_, x) in ref]


def sqlwalk_corr(res, exe, tier, seed, tmp):
    from p_tty import run_tty_cases
    cases = sqlwalk_cases(tier, seed)
    out = run_tty_cases(res, exe, None, cases, tmp, "sqlwalk", compare_output=False)
    stats = {"walks": 0, "steps": 0, "with_holes": 0}
    for (c, impl, model, raw) in out:
        ref = sqlwalk_ref(c.meta["s1"], c.meta["s2"])
        if len(ref) < len([e for e in c.meta["s1"] + c.meta["s2"]]):
            stats["with_holes"] += 1
        obs = [l for l in raw["obs"] if l.startswith("K ")]
        rl = [l for l in raw["obs"] if l.startswith("R ")]
        stats["walks"] += 1
        idx, shown = len(ref), ""
        ok = True
        for i, k in enumerate(c.keys):
            if i >= len(obs):
                res.oracle_failures.append({"stream": "sqlwalk", "case": c.spec(), "keys": c.keys,
                                            "why": "walk: only %d of %d keys observed (%s)" % (len(obs), len(c.keys), rl[:1])})
                ok = False
                break
            got = "".join(chr(x) for x in dec(obs[i].split()[1]))
            if got != shown:
                res.oracle_failures.append({"stream": "sqlwalk", "case": c.spec(), "keys": c.keys,
                                            "why": "walk: before key %d (%s) the line shows %r; walking the history %r from its end it should show %r" % (
                                                i, k, got, ref, shown)})
                ok = False
                break
            stats["steps"] += 1
            if k in ("Up", "C-p"):
                if idx > 0:
                    idx -= 1
                    shown = ref[idx]
            elif k in ("Down", "C-n"):
                if idx < len(ref):
                    idx += 1
                    shown = ref[idx] if idx < len(ref) else ""
            elif k == "M-<":            # the oldest line held (where enough Ups end)
                if ref and idx > 0:
                    idx = 0
                    shown = ref[0]
            elif k == "M->":            # back to the line being typed (where enough Downs end)
                if idx < len(ref):
                    idx = len(ref)
                    shown = ""
        if ok and rl and rl[0] != "R line:" + enc([ord(ch) for ch in shown]):
            res.oracle_failures.append({"stream": "sqlwalk", "case": c.spec(), "keys": c.keys,
                                        "why": "walk: the read returned %s, the line reached is %r" % (rl[0], shown)})
        res.nontrivial.add(c.spec())
    return stats
