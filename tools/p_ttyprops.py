"""Checks of the interactive properties (C01 C05 C06 C07 C08 C13 C14): every check runs
 (B) the correspondence stream: the real crate on a pty vs the extracted Editor model, and
 (4) a spec-level oracle on what the implementation did, written here without the model:
     scripts are lists of COMMANDS (key groups that reach the keymap exactly once), so the
     observation the harness logs before each command is the state between commands."""
import random

from common import *
from p_histfile import enc, dec
from p_linebuf import WordSpec, ud_tables, split_at, offsets, blen as cp_blen
import p_tty
from p_tty import Case, run_tty_cases, parse_read


def clen(c):
    return len(chr(c).encode("utf-8"))


def blen(s):
    return sum(clen(c) for c in s)


TTY_ASSUMPTIONS = [
    "the terminal is a Linux pty (line discipline: OPOST|ONLCR on output); TERM=xterm; window 80x24 unless the case sets a width",
    "delivery schedule is part of the input: bytes arrive in chunks, the next chunk is sent only once the child has read every byte sent and waits on the terminal with no timeout; a timed wait (key-sequence timeout 0, the 100 ms ESC ESC wait) therefore always expires",
    "observation uses public API only: a ConditionalEventHandler bound to Event::Any returning None logs line/cursor/mode/argument each time a key reaches the keymap",
    "grapheme segmentation and Unicode tables are the dependencies' own (dumped from the built crate at setup); theorems quantify over all Unicode data",
    "rows/columns below 65536, line below the u16 limits of the layout",
    "model and implementation are compared on states (text, cursor, mode, argument before every key) and results; the bytes written are compared only where the property is about what is shown (C02 -- whose check also replays a sample of every other interactive stream with the output compared -- C13's message, C19); a difference in output alone is counted in the evidence (output_only_differences) and is not this property's violation",
]


class Cmd:
    def __init__(self, keys, tag, **arg):
        self.keys, self.tag, self.arg = list(keys), tag, arg

    def __repr__(self):
        return "%s%s" % (self.tag, self.arg if self.arg else "")


def script_case(cmds, **kw):
    keys = [k for c in cmds for k in c.keys]
    c = Case(keys, **kw)
    c.meta["cmds"] = cmds
    return c


# ---------------------------------------------------------------- traces of the implementation

class Trace:
    """steps[i] = (cmd, (text, pos) before, after) with after = ("state", text, pos) | ("line", text) |
    ("end", outcome) | None (nothing observed: the script was cut short). Reads are consumed in order: a
    read's observations are the states before its commands, its outcome is what the last of them produced."""

    def __init__(self, case, impl_reads):
        self.case = case
        self.cmds = case.meta["cmds"]
        self.ok = False
        self.why = ""
        self.reads = [parse_read(r) for r in impl_reads]
        self.steps = []
        k = 0
        for (o, obs, w) in self.reads:
            for j, ob in enumerate(obs):
                if k >= len(self.cmds):
                    self.why = "more observations than commands"
                    return
                if j + 1 < len(obs):
                    after = ("state", obs[j + 1][0], obs[j + 1][1])
                elif o.startswith("line:"):
                    after = ("line", dec(o[5:]))
                else:
                    after = ("end", o)
                self.steps.append((self.cmds[k], (ob[0], ob[1]), after, ob))
                k += 1
        # a script is aligned when every command was observed and each read ended on a command that can end it
        if k != len(self.cmds):
            self.why = "misaligned %d/%d" % (k, len(self.cmds))
            return
        for (cmd, before, after, ob) in self.steps:
            if after[0] == "end" and after[1] == "hangup":
                continue            # the driver hung up after the last key: nothing was observed after it
            if after[0] in ("line", "end") and cmd.tag not in ("enter", "eof", "intr", "ender"):
                self.why = "read ended on %r" % cmd
                return
        self.written = [w for (_, _, w) in self.reads]
        self.ok = True

    @property
    def states(self):
        out = []
        for (cmd, before, after, ob) in self.steps:
            out.append(before)
        if self.steps:
            a = self.steps[-1][2]
            out.append((a[1], None) if a[0] == "line" else (None, None))
        return out


class Segs:
    """the crate's own segmentation of every string the oracles need (one batch through `rlharness seg`)"""

    def __init__(self, exe, tmp):
        self.exe, self.tmp, self.tab = exe, tmp, {}

    def need(self, strs):
        todo = [s for s in {tuple(x) for x in strs} if s not in self.tab]
        if not todo:
            return
        out = run_impl(self.exe, "seg", [enc(list(k)) for k in todo], self.tmp)
        for k, o in zip(todo, out):
            o = o.split(" BACKWARD")[0]
            self.tab[k] = [] if o == "_" else [dec(t) for t in o.split(",")]

    def __call__(self, s):
        return self.tab[tuple(s)]


def collect_segs(segs, traces):
    strs = []
    for t in traces:
        if not t.ok:
            continue
        for (cmd, (text, pos), after, ob) in t.steps:
            strs.append(text)
            pre, suf = split_at(text, pos)
            strs.append(pre)
            strs.append(suf)
    segs.need(strs)


# ---------------------------------------------------------------- the documented meaning of commands (C01)

LF = 0x0a


def line_bounds(text, pos):
    """byte offsets [start, end] of the line holding byte offset pos"""
    pre, suf = split_at(text, pos)
    s = pos
    for c in reversed(pre):
        if c == LF:
            break
        s -= clen(c)
    e = pos
    for c in suf:
        if c == LF:
            break
        e += clen(c)
    return s, e


def cut(text, a, b):
    """text without the bytes [a, b)"""
    l, rest = split_at(text, a)
    _, r = split_at(rest, b - a)
    return l + r


def spec_apply(tag, arg, text, pos, segs, ws):
    """expected (text, pos) after the command, or None when this oracle has no independent
    statement for it (the command is then covered by the model correspondence only)"""
    pre, suf = split_at(text, pos)
    gpre, gsuf = segs(pre), segs(suf)
    n = arg.get("n", 1)
    L = blen(text)
    if tag == "ins":
        c = arg["c"]
        return pre + [c] * n + suf, pos + clen(c) * n
    if tag == "left":
        return text, pos - sum(blen(g) for g in gpre[::-1][:n])
    if tag == "right":
        return text, pos + sum(blen(g) for g in gsuf[:n])
    if tag == "home":
        return text, line_bounds(text, pos)[0]
    if tag == "end":
        return text, line_bounds(text, pos)[1]
    if tag == "bs":
        k = sum(blen(g) for g in gpre[::-1][:n])
        return cut(text, pos - k, pos), pos - k
    if tag == "del":
        if not text:
            return None                    # C-d on an empty line is end-of-file
        k = sum(blen(g) for g in gsuf[:n])
        return cut(text, pos, pos + k), pos
    if tag == "killeol":
        s, e = line_bounds(text, pos)
        if pos == e:
            return (cut(text, pos, pos + 1), pos) if pos < L else (text, pos)
        return cut(text, pos, e), pos
    if tag == "killbol":
        s, e = line_bounds(text, pos)
        if pos == s:
            return (cut(text, pos - 1, pos), pos - 1) if pos > 0 else (text, pos)
        return cut(text, s, pos), s
    if tag in ("bword", "killbword", "killbbig", "vi_b", "vi_B"):
        w = {"bword": "e", "killbword": "e", "killbbig": "b", "vi_b": "v", "vi_B": "b"}[tag]
        if n != 1:
            return None
        offp, _ = offsets(gpre)
        tgt = 0
        for j in range(len(gpre) - 1, 0, -1):
            if ws.is_start(w, gpre[j - 1], gpre[j]):
                tgt = offp[j]
                break
        if tag in ("bword", "vi_b", "vi_B"):
            return text, tgt
        return cut(text, tgt, pos), tgt
    if tag in ("fword", "killfword"):
        if n != 1:
            return None
        off_s, _ = offsets(gsuf)
        tgt = None
        for j in range(1, len(gsuf)):
            if ws.is_end("e", gsuf[j - 1], gsuf[j]):
                tgt = pos + off_s[j]
                break
        if tgt is None:
            tgt = L
        if tag == "fword":
            return text, tgt
        return cut(text, pos, tgt), pos
    if tag in ("vi_w", "vi_W"):
        if n != 1:
            return None
        w = "v" if tag == "vi_w" else "b"
        off_s, _ = offsets(gsuf)
        for j in range(1, len(gsuf)):
            if ws.is_start(w, gsuf[j - 1], gsuf[j]):
                return text, pos + off_s[j]
        return text, (pos + off_s[-1] if len(gsuf) > 1 else pos)
    if tag == "vi_x":
        if not gsuf:
            return text, pos
        k = sum(blen(g) for g in gsuf[:n])
        return cut(text, pos, pos + k), pos
    if tag == "vi_X":
        k = sum(blen(g) for g in gpre[::-1][:n])
        return cut(text, pos - k, pos), pos - k
    if tag == "vi_D":
        return spec_apply("killeol", {}, text, pos, segs, ws)
    if tag == "vi_a":      # append: one cluster right, insert mode
        return text, pos + (blen(gsuf[0]) if gsuf else 0)
    if tag == "vi_A":
        return text, line_bounds(text, pos)[1]
    if tag == "vi_I":
        return text, line_bounds(text, pos)[0]
    if tag in ("vi_i", "noop"):
        return text, pos
    if tag == "vi_esc":    # leaving insert mode moves one cluster left
        return text, pos - (blen(gpre[-1]) if gpre else 0)
    return None


MOTION_TAGS = {"left", "right", "home", "end", "bword", "fword", "vi_b", "vi_B", "vi_w", "vi_W", "vi_a", "vi_A",
               "vi_I", "vi_i", "vi_esc", "noop", "motion"}

INS_CHARS = ["a", "b", "Z", "9", "_", " ", " ", ",", ".", "(", "é", "日", "😀", "́", "x", "-"]


def emacs_count(rng):
    """(prefix keys, n): a positive numeric argument typed with Meta-digits (and bare digits after the first)"""
    r = rng.random()
    if r < 0.75:
        return [], 1
    if r < 0.95:
        d = rng.choice("23456")
        return ["M-" + d], int(d)
    d1, d2 = rng.choice("12"), rng.choice("0123")
    return ["M-" + d1, d2], int(d1 + d2)


def gen_c01_oracle(rng, mode, n):
    cmds = []
    if mode == "emacs":
        for _ in range(n):
            r = rng.random()
            pre, k = emacs_count(rng)
            if r < 0.45:
                c = rng.choice(INS_CHARS)
                if pre and (c.isdigit() or c == '-'):
                    c = "a"
                cmds.append(Cmd(pre + [c], "ins", c=ord(c), n=k))
            elif r < 0.60:
                key, tag = rng.choice([("C-b", "left"), ("Left", "left"), ("C-f", "right"), ("Right", "right")])
                cmds.append(Cmd(pre + [key], tag, n=k))
            elif r < 0.68:
                key, tag = rng.choice([("C-a", "home"), ("Home", "home"), ("C-e", "end"), ("End", "end"), ("Home2", "home"), ("End2", "end")])
                cmds.append(Cmd([key], tag))
            elif r < 0.76:
                key, tag = rng.choice([("M-b", "bword"), ("M-f", "fword"), ("C-Left", "bword"), ("C-Right", "fword"),
                                       ("M-Left", "bword"), ("M-Right", "fword")])
                cmds.append(Cmd([key], tag))
            elif r < 0.86:
                key, tag = rng.choice([("Backspace", "bs"), ("C-h", "bs"), ("Delete", "del"), ("C-d", "del")])
                cmds.append(Cmd(pre + [key], tag, n=k))
            elif r < 0.96:
                key, tag = rng.choice([("C-k", "killeol"), ("C-u", "killbol"), ("C-w", "killbbig"), ("M-d", "killfword"),
                                       ("M-Backspace", "killbword")])
                cmds.append(Cmd([key], tag))
            else:
                cmds.append(Cmd(["C-v", "C-j"], "ins", c=LF, n=1))
    else:
        insert = True
        for _ in range(n):
            r = rng.random()
            if insert:
                if r < 0.65:
                    c = rng.choice(INS_CHARS)
                    cmds.append(Cmd([c], "ins", c=ord(c), n=1))
                elif r < 0.75:
                    cmds.append(Cmd([rng.choice(["Backspace", "C-h"])], "bs", n=1))
                elif r < 0.80:
                    key, tag = rng.choice([("Left", "left"), ("Right", "right"), ("Home", "home"), ("End", "end")])
                    cmds.append(Cmd([key], tag))
                else:
                    cmds.append(Cmd(["Esc"], "vi_esc"))
                    insert = False
            else:
                cnt, k = ([], 1) if rng.random() < 0.75 else (lambda d: ([d], int(d)))(rng.choice("2345"))
                if r < 0.35:
                    key, tag = rng.choice([("h", "left"), ("l", "right"), (" ", "right"), ("Backspace", "left"), ("C-h", "left")])
                    cmds.append(Cmd(cnt + [key], tag, n=k))
                elif r < 0.45:
                    key, tag = rng.choice([("0", "home"), ("$", "end"), ("Home", "home"), ("End", "end")])
                    cmds.append(Cmd([key], tag))
                elif r < 0.60:
                    key, tag = rng.choice([("w", "vi_w"), ("W", "vi_W"), ("b", "vi_b"), ("B", "vi_B")])
                    cmds.append(Cmd([key], tag))
                elif r < 0.75:
                    key, tag = rng.choice([("x", "vi_x"), ("X", "vi_X")])
                    cmds.append(Cmd(cnt + [key], tag, n=k))
                elif r < 0.80:
                    cmds.append(Cmd(["D"], "vi_D"))
                else:
                    key, tag = rng.choice([("i", "vi_i"), ("a", "vi_a"), ("A", "vi_A"), ("I", "vi_I")])
                    cmds.append(Cmd([key], tag))
                    insert = True
    cmds.append(Cmd(["Enter"], "enter"))
    return cmds


def c01_oracle_cases(tier, seed):
    rng = random.Random(seed * 919 + 1)
    n = 3000 if tier == "thorough" else 240
    cases = []
    for _ in range(n):
        mode = rng.choice(["emacs", "emacs", "vi"])
        cmds = gen_c01_oracle(rng, mode, rng.randint(4, 28))
        cases.append(script_case(cmds, mode=mode, timeout=0 if mode == "vi" else rng.choice(["none", 0]),
                                 prompt=rng.choice(["> ", "", "日> "]), printer=rng.random() < 0.2,
                                 initial=p_tty.mk_initial(rng, 0.2, INS_CHARS + ["\n"])))
    return cases


def eval_c01(res, traces, segs, ws, stream):
    tags = {}
    for t in traces:
        if not t.ok:
            continue
        for i, (cmd, (text, pos), after, ob) in enumerate(t.steps):
            if cmd.tag == "enter":
                # the line returned is the text as it stood (no validator)
                if after[0] != "line" or after[1] != text:
                    fail_case(res, stream, t, "Enter on (%s) did not return that text: %s" % (enc(text), after))
                continue
            if after[0] != "state":
                continue
            text2, pos2 = after[1], after[2]
            tags[cmd.tag] = tags.get(cmd.tag, 0) + 1
            if cmd.tag in MOTION_TAGS and text2 != text:
                fail_case(res, stream, t, "motion changed the text: command %d %r: %s -> %s" % (i, cmd, enc(text), enc(text2)))
                continue
            exp = spec_apply(cmd.tag, cmd.arg, text, pos, segs, ws)
            if exp is None:
                continue
            et, ep = exp
            if et != text2 or ep != pos2:
                fail_case(res, stream, t, "documented meaning: command %d %r on (%s,%d) should give (%s,%d), implementation gave (%s,%s)" % (
                    i, cmd, enc(text), pos, enc(et), ep, enc(text2), pos2))
            res.nontrivial.add((cmd.tag, enc(text), pos))
    return tags


def fail_case(res, stream, t, why):
    res.oracle_failures.append({"stream": stream, "case": t.case.model_line(p_tty.chunks_of(t.case.keys)),
                                "keys": t.case.keys, "cmds": [repr(c) for c in t.cmds], "why": why})


def run_spec_stream(res, exe, driver, cases, tmp, stream, seed, typeahead=0.25, compare_output=False):
    out = run_tty_cases(res, exe, driver, cases, tmp, stream, compare_output=compare_output, rng=random.Random(seed * 7 + 1),
                        typeahead=typeahead)
    traces = [Trace(c, impl) for (c, impl, model, raw) in out]
    return out, traces


def alignment(traces):
    ok = sum(1 for t in traces if t.ok)
    why = {}
    for t in traces:
        if not t.ok:
            k = t.why.split(" ")[0] + (" " + " ".join(t.why.split(" ")[1:3]) if t.why.startswith("read ended") else "")
            why[k] = why.get(k, 0) + 1
    return {"aligned": ok, "not_aligned": len(traces) - ok, "why_not": why}


def check_cc():
    """Props/C01 states the decoder theorem for Unicode data whose control class is Cc = C0/C1 controls"""
    if ud_tables().get("control") != [(0, 0x1f), (0x7f, 0x9f)]:
        raise BuildBroken("char::is_control of the implementation is not the C0/C1 range the decoder theorem assumes")


def c01_corr(res, exe, driver, tier, seed, tmp):
    check_cc()
    cases = p_tty.c01_cases(tier, seed)
    run_tty_cases(res, exe, driver, cases, tmp, "keys", compare_output=False, rng=random.Random(seed), typeahead=0.3)
    ocases = c01_oracle_cases(tier, seed)
    out, traces = run_spec_stream(res, exe, driver, ocases, tmp, "keys-spec", seed)
    segs = Segs(exe, tmp)
    collect_segs(segs, traces)
    ws = WordSpec(ud_tables())
    tags = eval_c01(res, traces, segs, ws, "keys-spec")
    res.distribution.update({"spec_commands": tags, "spec_alignment": alignment(traces),
                             "keys_scripts": len(cases), "spec_scripts": len(ocases)})
    res.rule = ("keys: random emacs/vi scripts (text over 1-4 byte, wide and combining characters; every bound key in its encodings; "
                "numeric arguments incl. negative and multi-digit; vi operators x motions x counts; C-x, C-v, C-], f/t/r; history; custom "
                "bindings; printer attached 20%; 30% type-ahead chunking) compared key by key (text, cursor, mode, n, sign) and in the "
                "result against the extracted model (the bytes written are compared by C02's check, which runs these scripts too). keys-spec: scripts of commands with an independent documented meaning "
                "(self-insert, char/word/line motions, char deletes, line and word kills, vi h l 0 $ w b W B x X D i a A I Esc) evaluated "
                "on the implementation's own observed states with the crate's own segmentation and Unicode tables.")
    for c, impl, model, raw in out[:3]:
        res.samples.append({"keys": c.keys, "impl": " ## ".join(impl)[:400]})


# ---------------------------------------------------------------- C13: Enter and the validator

def verdict_script(text):
    """the scripted validator of the harness child (harness/src/ttychild.rs), restated"""
    s = "".join(chr(c) for c in text)
    if "##" in s or "#@" in s:
        return ("error", None)
    if "!!" in s:
        return ("invalid", " <-- bad")
    if "~~" in s:
        return ("invalid", "")
    if "??" in s:
        return ("invalid", None)
    if s.endswith("\\"):
        return ("incomplete", None)
    if "ok" in s:
        return ("valid", " fine")
    return ("valid", None)


def verdict_script_req(text):
    return ("invalid", " <-- required") if not text else verdict_script(text)


def verdict_script_inc(text):
    return ("incomplete", None) if not text else verdict_script(text)


VERDICTS = {"script": verdict_script, "scriptreq": verdict_script_req, "scriptinc": verdict_script_inc}


def verdict_brackets(text):
    """rustyline::validate::MatchingBracketValidator as documented: balanced -> Valid, open left -> Incomplete,
    mismatch -> Invalid with a message"""
    stack = []
    pairs = {")": "(", "]": "[", "}": "{"}
    for c in text:
        ch = chr(c)
        if ch in "([{":
            stack.append(ch)
        elif ch in ")]}":
            if not stack:
                return ("invalid", "Mismatched brackets: '%s' is unpaired" % ch)
            top = stack.pop()
            if top != pairs[ch]:
                return ("invalid", "Mismatched brackets: '%s' is not properly closed" % top)
    return ("valid", None) if not stack else ("incomplete", None)


C13_FRAG = ["a", "b", " ", "!!", "??", "##", "#@", "\\", "ok", "(", ")", "[", "]", "{", "}", "é", "日", "x", "!", "?", "#", "~~", "~"]


def gen_c13(rng, mode):
    cmds = []
    nreads = rng.choice([1, 1, 2, 3])
    for r in range(nreads):
        steps = rng.randint(2, 12)
        if rng.random() < 0.3:
            # Enter on the EMPTY text (the first key of the read, or after the text was deleted again)
            if rng.random() < 0.4:
                cmds += [Cmd(["a"], "ins", c=0x61, n=1), Cmd(["Backspace"], "bs")]
            cmds.append(Cmd([rng.choice(["Enter", "C-j", "C-m"])], "enter"))
        for _ in range(steps):
            x = rng.random()
            if x < 0.55:
                for ch in rng.choice(C13_FRAG):
                    cmds.append(Cmd([ch], "ins", c=ord(ch), n=1))
            elif x < 0.78:
                cmds.append(Cmd([rng.choice(["Enter", "C-j", "C-m", "Enter"])], "enter"))
            elif x < 0.93:
                key, tag = rng.choice([("Left", "left"), ("Home", "home"), ("End", "end"), ("Right", "right"),
                                       ("Backspace", "bs")])
                cmds.append(Cmd([key], tag))
            else:
                cmds.append(Cmd(["C-v", "C-j"], "ins", c=LF, n=1) if mode == "emacs" else Cmd(["Left"], "left"))
        cmds.append(Cmd(["Enter"], "enter"))
    cmds.append(Cmd(["F12"], "noop"))      # an unbound key: makes the effect of the last Enter observable
    return cmds


def c13_oracle_cases(tier, seed):
    rng = random.Random(seed * 1013 + 3)
    n = 3000 if tier == "thorough" else 240
    cases = []
    for _ in range(n):
        mode = rng.choice(["emacs", "emacs", "vi"])
        cmds = gen_c13(rng, mode)
        vk = rng.choice(["script", "script", "brackets", "scriptreq", "scriptinc"])
        cases.append(script_case(cmds, mode=mode, validator=vk, reads=40, timeout=0 if mode == "vi" else rng.choice(["none", 0]),
                                 prompt=rng.choice(["> ", ""]), cols=rng.choice([80, 80, 20]),
                                 hints=["ok then"] if rng.random() < 0.15 else None))
        if len(cases) % 4 == 0:
            # an application that switched colours off (or forces them): the validator has the same say
            cases[-1].meta["color_mode"] = ["disabled", "forced"][(len(cases) // 4) % 2]
    return cases


def contains_seq(hay, needle):
    n = len(needle)
    return any(hay[i:i + n] == needle for i in range(len(hay) - n + 1)) if n else True


def eval_c13(res, traces, stream):
    kinds = {}
    for t in traces:
        if not t.ok:
            continue
        vfun = VERDICTS.get(t.case.validator, verdict_brackets)
        read_idx = 0
        for i, (cmd, (text, pos), after, ob) in enumerate(t.steps):
            if after[0] in ("line", "end"):
                this_read = read_idx
                read_idx += 1
            else:
                this_read = read_idx
            if cmd.tag != "enter" or after == ("end", "hangup"):
                continue
            kind, msg = vfun(text)
            kinds[kind + ("+msg" if msg else "+emptymsg" if msg == "" else "")] = kinds.get(kind + ("+msg" if msg else "+emptymsg" if msg == "" else ""), 0) + 1
            res.nontrivial.add((kind, enc(text), pos))
            if kind == "valid":
                if after != ("line", text):
                    fail_case(res, stream, t, "verdict Valid on (%s) but Enter gave %s" % (enc(text), after))
            elif kind == "error":
                if after != ("end", "verr"):
                    fail_case(res, stream, t, "validator error on (%s) but Enter gave %s" % (enc(text), after))
            elif kind == "incomplete" or msg is None:
                pre, suf = split_at(text, pos)
                if after != ("state", pre + [LF] + suf, pos + 1):
                    fail_case(res, stream, t, "verdict %s on (%s,%d): expected a line break at the cursor and editing to go on, got %s" % (
                        kind, enc(text), pos, after))
            else:
                if after != ("state", text, pos):
                    fail_case(res, stream, t, "verdict Invalid(msg) on (%s,%d): text/cursor should stay, got %s" % (enc(text), pos, after))
                elif not contains_seq(t.written[this_read], [ord(c) for c in msg]):
                    fail_case(res, stream, t, "verdict Invalid(%r) on (%s): the message was not written to the terminal" % (msg, enc(text)))
    return kinds


def c13_corr(res, exe, driver, tier, seed, tmp):
    cases = p_tty.c13_cases(tier, seed)
    run_tty_cases(res, exe, driver, cases, tmp, "validate", rng=random.Random(seed), typeahead=0.3)
    ocases = c13_oracle_cases(tier, seed)
    out, traces = run_spec_stream(res, exe, driver, ocases, tmp, "validate-spec", seed, compare_output=True)
    kinds = eval_c13(res, traces, "validate-spec")
    import p_direct
    nd = p_direct.c13_direct(res, exe, driver, tier, seed, tmp)
    res.distribution.update({"verdicts_at_enter": kinds, "spec_alignment": alignment(traces),
                             "validate_scripts": len(cases), "spec_scripts": len(ocases), "non_terminal_validator_cases": nd})
    res.rule = ("validate: random emacs/vi scripts with a scripted validator (## error, !! invalid+message, ?? invalid, trailing "
                "backslash incomplete, ok valid+message) or the shipped MatchingBracketValidator, Enter / C-j / C-m anywhere in "
                "the line, 1-2 reads, hints, narrow windows; compared with the extracted model (states before every key, results, "
                "bytes). validate-spec: at every Enter the verdict is recomputed here from the observed text and the decision "
                "table of the property is checked on what the implementation did (returned string = that text; LF at the cursor; "
                "text and cursor kept and the message written; error returned). direct-validate: non-terminal input (a child "
                "with stdin a pipe) under the bracket matcher and the scripted validator: compared with the model of "
                "readline_direct; every returned line is accepted by the validator, a validator error comes back as an error "
                "exactly where the accumulated text makes the validator fail.")
    for c, impl, model, raw in out[:3]:
        res.samples.append({"keys": c.keys, "impl": " ## ".join(impl)[:400]})


# ---------------------------------------------------------------- C05: undo

C05_TEXT = ["a", "b", "Z", "9", " ", " ", ",", ".", "é", "日", "x", "(", "_"]
BIG_EDIT_TAGS = {"killeol", "killbol", "killbbig", "killfword", "killbword", "yank", "edit"}


def gen_c05_cmds(rng, n, with_undo=True, kills=True):
    cmds = []
    for _ in range(n):
        r = rng.random()
        if not kills and 0.62 <= r < 0.80:
            r = 0.3      # the kill ring is not this property's business: no kills / yanks in the compared part
        if r < 0.40:
            c = rng.choice(C05_TEXT)
            cmds.append(Cmd([c], "ins", c=ord(c), n=1))
        elif r < 0.52:
            key, tag = rng.choice([("C-b", "left"), ("C-f", "right"), ("C-a", "home"), ("C-e", "end"), ("M-b", "bword"), ("M-f", "fword")])
            cmds.append(Cmd([key], tag))
        elif r < 0.62:
            key, tag = rng.choice([("Backspace", "bs"), ("Delete", "del"), ("Delete", "del"), ("C-h", "bs")])
            cmds.append(Cmd([key], tag))
        elif r < 0.74:
            key, tag = rng.choice([("C-k", "killeol"), ("C-u", "killbol"), ("C-w", "killbbig"), ("M-d", "killfword"), ("M-Backspace", "killbword")])
            cmds.append(Cmd([key], tag))
            if with_undo and rng.random() < 0.4:
                cmds.append(Cmd(["C-_"], "undo", n=1))
        elif r < 0.80:
            cmds.append(Cmd(["C-y"], "yank"))
            if with_undo and rng.random() < 0.4:
                cmds.append(Cmd(["C-_"], "undo", n=1))
        elif r < 0.86:
            cmds.append(Cmd([rng.choice(["C-t", "M-t", "M-u", "M-l", "M-c"])], "edit"))
            if with_undo and rng.random() < 0.4:
                cmds.append(Cmd(["C-_"], "undo", n=1))
        elif with_undo:
            k = rng.choice([1, 1, 1, 1, 2, 3])
            keys = (["M-%d" % k] if k > 1 else []) + [rng.choice(["C-_", "C-_", "C-x C-u"])]
            keys = [x for kk in keys for x in kk.split(" ")]
            cmds.append(Cmd(keys, "undo", n=k))
        else:
            c = rng.choice(C05_TEXT)
            cmds.append(Cmd([c], "ins", c=ord(c), n=1))
    return cmds


def abort_episode(rng, hist, cands):
    """keys that start a search or a completion, play in it, and abort it -- as one block"""
    if hist and (not cands or rng.random() < 0.6):
        ks = ["C-r"]
        for _ in range(rng.randint(0, 5)):
            ks.append(rng.choice(["a", "o", "e", "t", "x", "C-r", "C-s", "Backspace", "w", " "]))
        ks.append("C-g")
        return ks
    ks = ["Tab"] + ["Tab"] * rng.randint(0, 3) + (["BackTab"] if rng.random() < 0.3 else [])
    ks.append(rng.choice(["C-g", "Esc"]))
    return ks


def c05_oracle_cases(tier, seed):
    rng = random.Random(seed * 1109 + 7)
    n = 2400 if tier == "thorough" else 200
    cases = []
    # (1) undo at every kind of position; the script ends with an Undo of count 99
    for _ in range(n):
        cmds = gen_c05_cmds(rng, rng.randint(4, 26))
        cmds.append(Cmd(["M-9", "M-9", "C-_"], "undo_all"))
        cmds.append(Cmd(["Enter"], "enter"))
        cases.append(script_case(cmds, mode="emacs", timeout=rng.choice(["none", 0]), prompt="> ",
                                 initial=p_tty.mk_initial(rng, 0.3, C05_TEXT), meta=None))
    # (2) pairs: A + aborted search/completion + B   vs   A + B
    for k in range(n // 2):
        hist = [rng.choice(p_tty.HIST_POOL) for _ in range(rng.choice([1, 2, 3]))]
        cands = rng.sample(["foo", "foobar", "fo", "a", "ab", "abc", "b", "x y", "é", ""], rng.choice([0, 2, 3]))
        if cands and rng.random() < 0.3:
            cands = ["*"] + cands          # unfiltered script: offered whatever the word is
        A = gen_c05_cmds(rng, rng.randint(0, 10))
        B = gen_c05_cmds(rng, rng.randint(2, 12), kills=False) + [Cmd(["C-_"], "undo", n=1)] * rng.randint(1, 4) + [Cmd(["Enter"], "enter")]
        ep = abort_episode(rng, hist, cands)
        init = p_tty.mk_initial(rng, 0.3, ["a", "f", "o", " ", "b"])
        kw = dict(mode="emacs", timeout=0, prompt="> ", history=hist, cands=cands, initial=init)
        c1 = script_case(A + [Cmd([x], "episode") for x in ep] + B, **kw)
        c2 = script_case(A + B, **kw)
        c1.meta.update({"pair": k, "role": "with", "nA": len(A), "nB": len(B), "nE": len(ep)})
        c2.meta.update({"pair": k, "role": "without", "nA": len(A), "nB": len(B), "nE": 0})
        cases += [c1, c2]
    return cases


def eval_c05(res, traces, stream):
    stats = {"undo": 0, "undo_all": 0, "unit": 0, "pairs": 0}
    pairs = {}
    for t in traces:
        if "pair" in t.case.meta:
            pairs.setdefault(t.case.meta["pair"], {})[t.case.meta["role"]] = t
        if not t.ok or "pair" in t.case.meta:
            continue
        seen = [[]]          # texts the line has had (the empty line it started from included)
        for i, (cmd, (text, pos), after, ob) in enumerate(t.steps):
            if text not in seen:
                seen.append(text)
            if after[0] != "state":
                continue
            text2 = after[1]
            if cmd.tag == "undo":
                stats["undo"] += 1
                res.nontrivial.add(("undo", enc(text), cmd.arg["n"]))
                if text2 not in seen:
                    fail_case(res, stream, t, "(a) Undo at command %d produced a text the line never had: %s (had: %s)" % (
                        i, enc(text2), " | ".join(enc(x) for x in seen)))
                # (b) directly after a word-sized edit one Undo returns to the text before that edit
                if cmd.arg["n"] == 1 and i > 0:
                    pc, (ptext, ppos), pafter, _ = t.steps[i - 1]
                    if pc.tag in BIG_EDIT_TAGS and ptext != text and abs(len(ptext) - len(text)) != 1:
                        stats["unit"] += 1
                        if text2 != ptext:
                            fail_case(res, stream, t, "(b) Undo directly after the edit %r (%s -> %s) gave %s, not the text before that edit" % (
                                pc, enc(ptext), enc(text), enc(text2)))
            elif cmd.tag == "undo_all":
                stats["undo_all"] += 1
                if text2 != []:
                    fail_case(res, stream, t, "(c) Undo with count 99 left (%s), not the empty line" % enc(text2))
    # (d) an aborted search / completion leaves no trace in what follows
    for k, pr in pairs.items():
        if "with" not in pr or "without" not in pr:
            continue
        a, b = pr["with"], pr["without"]
        if not (a.ok and b.ok):
            continue
        nB = a.case.meta["nB"]
        sa = [(c.tag, before, after) for (c, before, after, ob) in a.steps[-nB:]]
        sb = [(c.tag, before, after) for (c, before, after, ob) in b.steps[-nB:]]
        stats["pairs"] += 1
        res.nontrivial.add(("pair", tuple(a.case.keys)))
        if sa != sb:
            j = next(i for i in range(nB) if sa[i] != sb[i])
            fail_case(res, stream, a, "(d) after the aborted episode the same commands behave differently from command B[%d] on: %s vs %s" % (
                j, sa[j], sb[j]))
    return stats


K9_WITNESS = ["a", "b", "Backspace", "C-r", "M-X", "C-r", "o", "M-X", "C-g", "u", "u", "F12"]


def c05_known(res, exe):
    """re-confirm the recorded finding K9 on the implementation"""
    import ptydrive
    known = {f["id"] for f in known_findings() if f["property"] == "C05" and f["status"] == "known"}
    if "K9" in known:
        c = Case(K9_WITNESS, mode="vi", prompt="> ", timeout="none", history=["one"])
        r = ptydrive.run_case(exe, c.spec(), p_tty.chunks_of(c.keys))
        lines = ["".join(chr(x) for x in dec(l.split()[1])) for l in r["obs"] if l.startswith("K ")]
        if len(lines) >= 3 and lines[-2] == "aba":
            res.known_confirmed.append(("K9", "vi mode with Alt keys (no key-sequence timeout): text 'a' left by typing ab + Backspace, "
                                        "C-r, M-X (leaves insert mode inside the search: Changeset::end pops the search's Begin marker), "
                                        "C-r o (hit 'one': its delete notification merges into the Delete below the mark), M-X, C-g: the abort "
                                        "restores 'a' but the next undo shows 'aba', a text that never existed (then 'a')"))


def c05_corr(res, exe, driver, tier, seed, tmp):
    c05_known(res, exe)
    cases = p_tty.c05_cases(tier, seed)
    out0 = run_tty_cases(res, exe, driver, cases, tmp, "undo", compare_output=False, rng=random.Random(seed), typeahead=0.3)
    # vi scripts that end with k single-key undos in command mode and Enter: every one of those undos lands on a text the
    # line had at an earlier key (the declarative clause (a) below, for Vi mode, where keys and observations do not pair up
    # one to one elsewhere in a script)
    ntail = 0
    for c, impl, model, raw in out0:
        k = c.meta.get("undo_tail")
        if not k or not impl:
            continue
        o, obs, w = parse_read(impl[0])
        if not o.startswith("line:") or len(obs) < k + 2:
            continue
        texts = [ob[0] for ob in obs]            # the text before each key that reached the keymap; the last one is before Enter
        m = len(texts)
        ntail += 1
        for j in range(1, k + 1):
            i = m - 1 - k + j                    # the observation made right after the j-th undo of the tail
            earlier = texts[:i]
            if texts[i] not in earlier and texts[i] != []:
                res.oracle_failures.append({"stream": "undo", "case": c.model_line(p_tty.chunks_of(c.keys)), "keys": c.keys,
                                            "why": "vi: undo %d of the final %d shows '%s', a text the line never had at an earlier key (the last texts seen: %s)" % (
                                                j, k, enc(texts[i]), " | ".join(enc(x) for x in earlier[-6:]))})
                break
    res.extra["vi_undo_tails_judged"] = ntail
    ocases = c05_oracle_cases(tier, seed)
    out, traces = run_spec_stream(res, exe, driver, ocases, tmp, "undo-spec", seed, typeahead=0.0)
    stats = eval_c05(res, traces, "undo-spec")
    res.distribution.update({"oracle": stats, "spec_alignment": alignment(traces), "undo_scripts": len(cases),
                             "spec_scripts": len(ocases)})
    res.rule = ("undo: random emacs/vi scripts with C-_ / C-x C-u / vi u injected after 22% of the keys, with counts, plus searches and "
                "completions started, aborted or accepted in between; compared with the extracted model. undo-spec: (a) every Undo "
                "lands on a text observed earlier in the read; (b) one Undo directly after a word-sized edit restores the text before it; "
                "(c) Undo with count 99 gives the empty line; (d) pairs of scripts A+episode+B / A+B where the episode is a search or a "
                "completion that is aborted: the B parts must behave identically (states, undo results, returned line).")
    for c, impl, model, raw in out[:3]:
        res.samples.append({"keys": c.keys, "impl": " ## ".join(impl)[:400]})


# ---------------------------------------------------------------- C06: kill ring

KILL_TAGS = {"killeol", "killbol", "killbbig", "killfword", "killbword"}


def gen_c06(rng):
    cmds = []
    for ch in p_tty.rand_text(rng, 4, 16, ["a", "b", " ", " ", ",", "é", "日", "x", "(", "_", "o", "\n"]):
        cmds.append(Cmd([ch] if ch != "\n" else ["C-v", "C-j"], "ins", c=ord(ch), n=1))
    popped = False
    for _ in range(rng.randint(4, 22)):
        r = rng.random()
        if r < 0.38:       # (kills after a yank-pop too: finding K1 is repaired)
            key, tag = rng.choice([("C-k", "killeol"), ("C-u", "killbol"), ("C-w", "killbbig"), ("M-d", "killfword"),
                                   ("M-Backspace", "killbword"), ("C-w", "killbbig"), ("M-d", "killfword")])
            cmds.append(Cmd([key], tag))
        elif r < 0.50:
            if rng.random() < 0.25:
                k = rng.choice([2, 3])
                cmds.append(Cmd(["M-%d" % k, "C-y"], "yank", n=k))      # (finding K2 is repaired: all copies are replaced)
            else:
                cmds.append(Cmd(["C-y"], "yank"))
            k = rng.choice([0, 0, 1, 2, 3])
            for _ in range(k):
                cmds.append(Cmd(["M-y"], "yankpop"))
                popped = True
        elif r < 0.55:
            if cmds and cmds[-1].tag in KILL_TAGS:
                continue      # a failed yank-pop between two kills does not end the run in rustyline (like Noop / C-l): not judged
            cmds.append(Cmd(["M-y"], "yankpop"))       # not after a yank unless the previous command was one
            if cmds[-2].tag in ("yank", "yankpop"):
                popped = True
        elif r < 0.65:
            key, tag = rng.choice([("Backspace", "bs"), ("Delete", "del"), ("C-h", "bs")])
            cmds.append(Cmd([key], tag))
        elif r < 0.80:
            key, tag = rng.choice([("C-b", "left"), ("C-f", "right"), ("C-a", "home"), ("C-e", "end"), ("M-b", "bword"), ("M-f", "fword")])
            cmds.append(Cmd([key], tag))
        elif r < 0.87:
            # commands the main loop handles before command::execute: quoted insert, an aborted search
            if rng.random() < 0.5:
                c = rng.choice(["x", "é"])
                cmds.append(Cmd([rng.choice(["C-v", "C-q"]), c], "ins", c=ord(c), n=1))
            else:
                cmds += [Cmd(["C-r"], "search"), Cmd(["C-g"], "search_abort")]
        else:
            c = rng.choice(["a", " ", ",", "é"])
            cmds.append(Cmd([c], "ins", c=ord(c), n=1))
    return cmds


def c06_oracle_cases(tier, seed):
    rng = random.Random(seed * 1201 + 11)
    n = 3000 if tier == "thorough" else 260
    cases = []
    for _ in range(n):
        cmds = gen_c06(rng) + [Cmd(["Enter"], "enter")]
        if rng.random() < 0.3:       # the ring survives the read
            cmds += [Cmd(["C-y"], "yank")] + [Cmd(["M-y"], "yankpop")] * rng.randint(0, 2) + [Cmd(["Enter"], "enter")]
        cases.append(script_case(cmds, mode="emacs", reads=3, timeout=rng.choice(["none", 0]), prompt="> ", history=["zq", "qz"]))
    # a window resize is no command: kills on either side of it accumulate, a yank-pop after it still follows its yank
    # (one chunk per command; the resize happens once the command before it has been consumed; no model for signals:
    # judged by the reference ring only)
    for _ in range(max(6, n // 10)):
        words = [rng.choice(["alpha", "beta", "gamma", "delta", "é日", "x_y", "w" * 9]) for _ in range(rng.randint(3, 6))]
        cmds = [Cmd([ch], "ins", c=ord(ch), n=1) for ch in " ".join(words)]
        at = []
        for _ in range(rng.randint(2, 5)):
            r = rng.random()
            if r < 0.6:
                key, tag = rng.choice([("C-w", "killbbig"), ("M-Backspace", "killbword"), ("C-w", "killbbig")])
                cmds.append(Cmd([key], tag))
            elif r < 0.8:
                cmds.append(Cmd(["C-y"], "yank"))
                if rng.random() < 0.6:
                    at.append(len(cmds) - 1)
                    cmds.append(Cmd(["M-y"], "yankpop"))
            else:
                cmds.append(Cmd([rng.choice(["C-a", "C-e"])], "home" if cmds and False else "end"))
                cmds[-1] = Cmd(["C-e"], "end")
            if rng.random() < 0.6:
                at.append(len(cmds) - 1)
        cmds += [Cmd(["C-y"], "yank"), Cmd(["Enter"], "enter")]
        chunks = [b"".join(p_tty.key_bytes(k) for k in cmd.keys) for cmd in cmds]
        c = script_case(cmds, mode="emacs", reads=1, timeout=rng.choice(["none", 0]), prompt="> ", chunks=chunks, cols=40)
        c.meta["events"] = {k: [("winch", rng.choice([20, 12, 30, 80]))] for k in sorted(set(at))}
        cases.append(c)
    return cases


def bytes_of(text):
    return "".join(chr(c) for c in text).encode("utf-8")


def eval_c06(res, traces, stream):
    stats = {"kill": 0, "kill_nothing": 0, "kill_accumulated": 0, "yank": 0, "yank_after_kill": 0, "yankpop": 0,
             "yankpop_noop": 0, "char_delete_between": 0}
    for t in traces:
        if not t.ok:
            continue
        ring, ptr = [], None          # kill-run texts, oldest first; ptr = index the next yank takes
        last = "other"                # "kill" | ("yank", inserted bytes) | "other"
        for i, (cmd, (text, pos), after, ob) in enumerate(t.steps):
            if cmd.tag == "enter":
                last = "other"
                continue
            if after[0] != "state":
                break
            text2, pos2 = after[1], after[2]
            b1, b2 = bytes_of(text), bytes_of(text2)
            if cmd.tag in KILL_TAGS:
                k = len(b1) - len(b2)
                if k <= 0:
                    stats["kill_nothing"] += 1
                    if text2 != text:
                        fail_case(res, stream, t, "kill command %d %r changed the text without removing anything" % (i, cmd))
                    continue          # nothing removed: nothing notified, flag unchanged
                removed = b1[pos2:pos2 + k]
                if b1[:pos2] + b1[pos2 + k:] != b2:
                    fail_case(res, stream, t, "kill command %d %r did not remove one range at the new cursor" % (i, cmd))
                    break
                forward = pos2 == pos
                stats["kill"] += 1
                if last == "kill":
                    stats["kill_accumulated"] += 1
                    ring[-1] = ring[-1] + removed if forward else removed + ring[-1]
                else:
                    ring.append(removed)
                    ring = ring[-60:]
                ptr = len(ring) - 1
                last = "kill"
            elif cmd.tag == "yank":
                stats["yank"] += 1
                if not ring:
                    if text2 != text:
                        fail_case(res, stream, t, "yank with an empty ring changed the text")
                    last = "other"
                    continue
                ins = ring[ptr] * cmd.arg.get("n", 1)
                if last == "kill":
                    stats["yank_after_kill"] += 1
                exp = b1[:pos] + ins + b1[pos:]
                res.nontrivial.add(("yank", enc(text), pos, ins))
                if b2 != exp or pos2 != pos + len(ins):
                    fail_case(res, stream, t, "yank at command %d: expected the kill %r inserted at the cursor of (%s,%d), got (%s,%s)%s" % (
                        i, ins.decode("utf-8", "replace"), enc(text), pos, enc(text2), pos2,
                        " -- directly after the kill run" if last == "kill" else ""))
                    break
                last = ("yank", ins)
            elif cmd.tag == "yankpop":
                if isinstance(last, tuple):
                    stats["yankpop"] += 1
                    prev = last[1]
                    ptr = (ptr - 1) % len(ring)
                    ins = ring[ptr]
                    exp = b1[:pos - len(prev)] + ins + b1[pos:]
                    res.nontrivial.add(("yankpop", enc(text), pos, ins))
                    if b2 != exp or pos2 != pos - len(prev) + len(ins):
                        fail_case(res, stream, t, "yank-pop at command %d: expected %r to replace the %d bytes just inserted in (%s,%d), got (%s,%s)" % (
                            i, ins.decode("utf-8", "replace"), len(prev), enc(text), pos, enc(text2), pos2))
                        break
                    last = ("yank", ins)
                else:
                    stats["yankpop_noop"] += 1
                    if text2 != text:
                        fail_case(res, stream, t, "yank-pop at command %d, not directly after a yank, changed the text" % i)
                    last = "other"
            else:
                if cmd.tag in ("bs", "del") and last == "kill":
                    stats["char_delete_between"] += 1
                last = "other"
    return stats


K1_WITNESS = ["o", "n", "e", " ", "t", "w", "o", " ", "t", "h", "r", "e", "e", "C-w", "C-b", "C-w", "C-b", "C-w", "C-y", "M-y",
              "x", "y", "z", "C-u", "C-y", "M-y", "M-y", "M-y", "M-y", "F12"]


K2_WITNESS = ["a", "b", " ", "c", "d", "C-w", "C-b", "C-w", "M-3", "C-y", "M-y", "F12"]


def witness_lines(exe, keys):
    import ptydrive
    c = Case(keys, prompt="> ")
    r = ptydrive.run_case(exe, c.spec(), p_tty.chunks_of(c.keys))
    return [dec(l.split()[1]) for l in r["obs"] if l.startswith("K ")]


def c06_known(res, exe):
    """re-confirm the recorded findings on the implementation (witness scripts of known_findings.json)"""
    known = {f["id"]: f for f in known_findings() if f["property"] == "C06" and f["status"] == "known"}
    if "K1" in known:
        lines = witness_lines(exe, K1_WITNESS)
        cycle = ["".join(chr(c) for c in l) for l in lines[-5:]]
        if len(cycle) == 5:
            if not any("one" in x for x in cycle):
                res.known_confirmed.append(("K1", "a kill made after a yank-pop overwrites a ring slot: kills 'three','two','one', C-y M-y, "
                                            "typing, C-u, then cycling with M-y shows %s and never 'one'" % cycle))
    if "K2" in known:
        lines = witness_lines(exe, K2_WITNESS)
        if lines and "".join(chr(c) for c in lines[-1]).strip() == "ababcd":
            res.known_confirmed.append(("K2", "yank-pop after a yank with a count replaces only one copy: kills 'cd','ab', M-3 C-y gives "
                                        "'ababab', M-y gives 'ababcd'"))


def c06_corr(res, exe, driver, tier, seed, tmp):
    c06_known(res, exe)
    cases = p_tty.c06_cases(tier, seed)
    run_tty_cases(res, exe, driver, cases, tmp, "kill", compare_output=False, rng=random.Random(seed), typeahead=0.3)
    ocases = c06_oracle_cases(tier, seed)
    out, traces = run_spec_stream(res, exe, driver, ocases, tmp, "kill-spec", seed)
    stats = eval_c06(res, traces, "kill-spec")
    res.distribution.update({"oracle": stats, "spec_alignment": alignment(traces), "kill_scripts": len(cases),
                             "spec_scripts": len(ocases)})
    res.rule = ("kill: random emacs/vi scripts biased towards C-k C-u C-w M-d M-DEL, vi d/c/y + motion, p/P, counts, negative "
                "arguments, C-y, M-y, char deletes in between, a second read; compared with the extracted model. kill-spec: a "
                "reference ring (chronological list of kill-run texts, forward pieces appended / backward pieces prepended, "
                "char deletes ending a run without entering it, yank = newest, yank-pop = previous, cyclically, only directly "
                "after a yank) is computed here from the implementation's own observed texts and every yank / yank-pop is compared "
                "with it (kills after a yank-pop included: they become the newest entry).")
    for c, impl, model, raw in out[:3]:
        res.samples.append({"keys": c.keys, "impl": " ## ".join(impl)[:400]})


# ---------------------------------------------------------------- C07: history recall

C07_POOL = ["one", "two words", "é日", "a b,c", "l1\nl2\nl3", "x", "ab\ncd", "  lead", "tail\n", "\nhead", "w" * 30, "q", "one"]
RECALL_TAGS = {"prev", "next", "first", "last", "up", "down"}


def gen_c07(rng):
    cmds = []
    for _ in range(rng.randint(3, 24)):
        r = rng.random()
        if r < 0.55:
            key, tag = rng.choice([("C-p", "prev"), ("C-n", "next"), ("Up", "up"), ("Down", "down"), ("Up", "up"), ("Down", "down"),
                                   ("M-<", "first"), ("M->", "last"), ("Up2", "up"), ("Down2", "down")])
            cmds.append(Cmd([key], tag))
        elif r < 0.75:
            c = rng.choice(["a", "b", " ", "é", "日", ","])
            cmds.append(Cmd([c], "ins", c=ord(c), n=1))
        elif r < 0.82:
            cmds.append(Cmd(["C-v", "C-j"], "ins", c=LF, n=1))
        else:
            key, tag = rng.choice([("C-a", "home"), ("C-e", "end"), ("Left", "left"), ("Right", "right"), ("C-k", "killeol"),
                                   ("Backspace", "bs"), ("M-b", "bword"), ("C-_", "undo")])
            cmds.append(Cmd([key], tag))
    cmds.append(Cmd(["F12"], "noop"))
    return cmds


def c07_oracle_cases(tier, seed):
    rng = random.Random(seed * 1301 + 13)
    n = 3000 if tier == "thorough" else 260
    cases = []
    for _ in range(n):
        hist = [rng.choice(C07_POOL) for _ in range(rng.choice([0, 1, 2, 3, 5]))]
        cases.append(script_case(gen_c07(rng), mode="emacs", history=hist, timeout=rng.choice(["none", 0]),
                                 prompt=rng.choice(["> ", "", "日> "]), cols=rng.choice([80, 80, 12]),
                                 initial=p_tty.mk_initial(rng, 0.3, ["a", "b", "\n", "é", " "])))
    # a very long line being typed (beyond the 4096-byte MAX_LINE of fixed-capacity buffers) must come back intact
    for _ in range(24 if tier == "thorough" else 4):
        body = "".join(rng.choice(["a", "b", "é", " "]) for _ in range(rng.randint(4080, 4400)))
        k = rng.randint(0, len(body))
        up, down = rng.choice([("C-p", "C-n"), ("Up", "Down"), ("M-<", "M->")])
        cmds = [Cmd([up], {"C-p": "prev", "Up": "up", "M-<": "first"}[up]), Cmd(["x"], "ins", c=120, n=1),
                Cmd([down], {"C-n": "next", "Down": "down", "M->": "last"}[down]), Cmd(["F12"], "noop")]
        cases.append(script_case(cmds, mode="emacs", history=["old", "older"][:rng.choice([1, 2])], timeout=0, prompt="> ",
                                 initial=(body[:k], body[k:])))
    return cases


def eval_c07(res, traces, stream):
    stats = {}
    for t in traces:
        if not t.ok:
            continue
        hist = [[ord(ch) for ch in h] for h in t.case.history]
        idx = len(hist)
        saved = None
        for i, (cmd, (text, pos), after, ob) in enumerate(t.steps):
            if after[0] != "state":
                break
            text2, pos2 = after[1], after[2]
            tag = cmd.tag
            if tag in ("up", "down"):
                pre, suf = split_at(text, pos)
                if tag == "up" and LF in pre:
                    tag = "lineup"
                elif tag == "down" and LF in suf:
                    tag = "linedown"
                else:
                    tag = "prev" if tag == "up" else "next"
            if tag not in ("prev", "next", "first", "last", "lineup", "linedown"):
                continue
            stats[tag] = stats.get(tag, 0) + 1
            exp = (text, pos)
            if tag in ("lineup", "linedown"):
                # moving between the lines of the text: the text stays, nothing is recalled, the cursor lands
                # on the neighbouring line
                pre2 = split_at(text2, pos2)[0] if text2 == text else None
                ok = text2 == text and pre2 is not None and \
                    pre2.count(LF) == split_at(text, pos)[0].count(LF) + (-1 if tag == "lineup" else 1)
                if not ok:
                    fail_case(res, stream, t, "%s at command %d on (%s,%d) should move one line, got (%s,%s)" % (tag, i, enc(text), pos, enc(text2), pos2))
                    break
                continue
            if hist:
                if tag == "prev" and idx > 0:
                    if idx == len(hist):
                        saved = (text, pos)
                    idx -= 1
                    exp = (hist[idx], blen(hist[idx]))
                elif tag == "next" and idx < len(hist):
                    idx += 1
                    exp = saved if idx == len(hist) else (hist[idx], blen(hist[idx]))
                elif tag == "first" and idx > 0:
                    if idx == len(hist):
                        saved = (text, pos)
                    idx = 0
                    exp = (hist[0], blen(hist[0]))
                elif tag == "last" and idx < len(hist):
                    idx = len(hist)
                    exp = saved
            res.nontrivial.add((tag, enc(text), pos, idx))
            if (text2, pos2) != exp:
                fail_case(res, stream, t, "%s at command %d: expected (%s,%d) [entry %d of %d], shown (%s,%s)" % (
                    tag, i, enc(exp[0]), exp[1], idx, len(hist), enc(text2), pos2))
                break
    return stats


def c07_corr(res, exe, driver, tier, seed, tmp):
    cases = p_tty.c07_cases(tier, seed)
    run_tty_cases(res, exe, driver, cases, tmp, "recall", compare_output=False, rng=random.Random(seed), typeahead=0.3)
    ocases = c07_oracle_cases(tier, seed)
    out, traces = run_spec_stream(res, exe, driver, ocases, tmp, "recall-spec", seed)
    stats = eval_c07(res, traces, "recall-spec")
    import p_sql
    stats["sqlwalk"] = p_sql.sqlwalk_corr(res, exe, tier, seed, tmp)      # the SQLite back end under the same editor
    res.distribution.update({"oracle": stats, "spec_alignment": alignment(traces), "recall_scripts": len(cases),
                             "spec_scripts": len(ocases)})
    res.rule = ("recall: random emacs/vi scripts with 0-5 history entries (multi-line, duplicates, leading blanks, a 30-column "
                "entry in a 12-column window), Up/Down/C-p/C-n/M-</M-> and vi j/k/+/- with counts, edits of recalled entries, "
                "line breaks typed into the line; compared with the extracted model. recall-spec: a reference walk (fixed "
                "entry list, position, the line captured when recall starts) predicts what each recall command must show -- "
                "the stored entry with the cursor at its end, clamping at both ends, the captured line and cursor when coming "
                "back -- and Up/Down inside a multi-line text must move between lines without recalling. sqlwalk: the same "
                "editor over an SQLiteHistory on a pty (lines of an earlier session and of this one, row-id holes from "
                "re-entered lines): Up / Down walks against the list of lines held, and the returned line.")
    for c, impl, model, raw in out[:3]:
        res.samples.append({"keys": c.keys, "impl": " ## ".join(impl)[:400]})


# ---------------------------------------------------------------- C08: incremental search

C08_POOL = ["abc", "xabcx", "ab", "b", "é日", "日é日", "a b,c", "foo(bar)", "ab\ncd", "zzz", "abab", "(x)", "ABC", " lead", "x",
            "cab", "bca"]


def gen_c08(rng):
    cmds = []
    for ch in p_tty.rand_text(rng, 0, 4, ["a", "b", "q", " "]):
        cmds.append(Cmd([ch], "ins", c=ord(ch), n=1))
    if rng.random() < 0.5:
        cmds.append(Cmd([rng.choice(["Left", "C-a"])], "motion"))
    for _ in range(rng.randint(1, 3)):
        if rng.random() < 0.35:
            for _ in range(rng.randint(1, 3)):
                cmds.append(Cmd([rng.choice(["Up", "C-p"])], "motion"))      # browsing an older entry when the search starts
        cmds.append(Cmd(["C-r"], "s_start"))
        for _ in range(rng.randint(0, 9)):
            r = rng.random()
            if r < 0.50:
                ch = rng.choice(["a", "b", "c", "x", "é", "日", "(", " ", "z", ","])
                cmds.append(Cmd([ch], "s_char", c=ord(ch)))
            elif r < 0.72:
                cmds.append(Cmd(["C-r"], "s_again_r"))
            elif r < 0.84:
                cmds.append(Cmd(["C-s"], "s_again_f"))
            else:
                cmds.append(Cmd([rng.choice(["Backspace", "C-h"])], "s_bs"))
        r = rng.random()
        if r < 0.4:
            cmds.append(Cmd(["C-g"], "s_abort"))
        elif r < 0.8:
            key, tag = rng.choice([("Left", "left"), ("C-a", "home"), ("C-e", "end"), ("Right", "right"), ("M-b", "bword")])
            cmds.append(Cmd([key], "s_exit", cmd=tag))
        else:
            cmds.append(Cmd([rng.choice(["C-k", "C-t", "F5", "C-_"])], "s_exit", cmd=None))
        for ch in p_tty.rand_text(rng, 0, 2, ["a", "Z"]):
            cmds.append(Cmd([ch], "ins", c=ord(ch), n=1))
    cmds.append(Cmd(["F12"], "noop"))
    return cmds


def c08_oracle_cases(tier, seed):
    rng = random.Random(seed * 1409 + 17)
    n = 3000 if tier == "thorough" else 260
    cases = []
    for _ in range(n):
        hist = [rng.choice(C08_POOL) for _ in range(rng.choice([1, 2, 3, 4, 6, 8]))]
        cases.append(script_case(gen_c08(rng), mode="emacs", history=hist, timeout=rng.choice(["none", 0]),
                                 prompt=rng.choice(["> ", ""]), cols=rng.choice([80, 80, 24]),
                                 initial=p_tty.mk_initial(rng, 0.25, ["a", "b", " ", "é"])))
    # an entry longer than 4096 bytes (the MAX_LINE of fixed-capacity buffers) whose only match lies beyond that offset: found,
    # shown and accepted whole, by C-r and by C-r C-s
    for i in range(12 if tier == "thorough" else 3):
        body = "".join(rng.choice(["a", "b", "é", " "]) for _ in range(rng.randint(4100, 4300)))
        tail = rng.choice(["qz tail", " q", "xq日"])
        hist = [["older", body + tail, "newer"], [body + tail, "n1", "n2"], ["o1", "o2", body + tail]][i % 3]
        cmds = [Cmd(["C-r"], "s_start"), Cmd(["q"], "s_char", c=ord("q"))]
        if i % 2:
            cmds += [Cmd(["C-s"], "s_again_f"), Cmd(["C-r"], "s_again_r")]
        cmds += [Cmd(["C-e"], "s_exit", cmd="end"), Cmd(["F12"], "noop")]
        cases.append(script_case(cmds, mode="emacs", history=hist, timeout=0, prompt="> ", cols=80))
    return cases


def find_cp(term, entry):
    """first occurrence of the code-point list term in entry -> byte offset, or None"""
    n = len(term)
    for i in range(len(entry) - n + 1):
        if entry[i:i + n] == term:
            return blen(entry[:i])
    return None


def nearest(hist, term, start, direction):
    if not term or start >= len(hist) or start < 0:
        return None
    rng_ = range(start, -1, -1) if direction == "r" else range(start, len(hist))
    for i in rng_:
        p = find_cp(term, hist[i])
        if p is not None:
            return i, p
    return None


SEARCH_PROMPT = re.compile(r"\((failed )?reverse-i-search\)`(.*?)': ", re.S)


def search_prompts(written):
    """the search prompts in the bytes written during a read, in order: [(reported success, search text)] -- the only place
    where the search reports success or failure"""
    return [(m.group(1) is None, [ord(c) for c in m.group(2)]) for m in SEARCH_PROMPT.finditer("".join(chr(c) for c in written))]


def compare_search_prompts(res, out, stream):
    """the sequence of search prompts written by the implementation and by the model (the rest of the output: C02)"""
    n = 0
    for c, impl, model, raw in out:
        if model is None or len(impl) != len(model) or c.meta.get("events") or c.meta.get("no_model"):
            continue
        for a, b in zip(impl, model):
            if a.startswith("O=hangup") or b.startswith("O=hangup"):
                continue
            pa, pb = search_prompts(parse_read(a)[2]), search_prompts(parse_read(b)[2])
            n += len(pa)
            if pa != pb:
                res.disagreements.append({"stream": stream + "-prompts", "case": c.model_line(p_tty.chunks_of(c.keys)), "keys": c.keys,
                                          "impl": " ".join("%s`%s'" % ("ok" if ok else "FAILED", enc(t)) for ok, t in pa),
                                          "model": " ".join("%s`%s'" % ("ok" if ok else "FAILED", enc(t)) for ok, t in pb)})
                break
    return n


def eval_c08(res, traces, segs, ws, stream):
    stats = {}
    for t in traces:
        if not t.ok:
            continue
        hist = [[ord(ch) for ch in h] for h in t.case.history]
        term, idx, d, backup = [], 0, "r", None
        # what the search REPORTS: the prompts written, one per key read inside a search (the first when it starts)
        shown = [p for (o, obs, w) in t.reads for p in search_prompts(w)]
        nshown, success = 0, True
        for i, (cmd, (text, pos), after, ob) in enumerate(t.steps):
            if after[0] != "state":
                break
            text2, pos2 = after[1], after[2]
            tag = cmd.tag
            if not tag.startswith("s_"):
                continue
            stats[tag] = stats.get(tag, 0) + 1
            exp = (text, pos)
            hit = None
            if tag == "s_start":
                term, idx, d, backup = [], len(hist) - 1, "r", (text, pos)
            elif tag == "s_char":
                term = term + [cmd.arg["c"]]
                hit = nearest(hist, term, idx, d)
            elif tag == "s_again_r":
                d = "r"
                if idx > 0:
                    idx -= 1
                    hit = nearest(hist, term, idx, d)
            elif tag == "s_again_f":
                d = "f"
                if idx < len(hist) - 1:
                    idx += 1
                    hit = nearest(hist, term, idx, d)
            elif tag == "s_bs":
                term = term[:-1]
            elif tag == "s_abort":
                exp = backup
            elif tag == "s_exit":
                if cmd.arg["cmd"] is None:
                    continue
                e2 = spec_apply(cmd.arg["cmd"], {}, text, pos, segs, ws)
                if e2 is None:
                    continue
                exp = e2
            if hit is not None:
                idx = hit[0]
                exp = (hist[idx], hit[1])
                stats["hits"] = stats.get("hits", 0) + 1
            if tag == "s_start":
                success = True
            elif tag in ("s_char", "s_again_r", "s_again_f"):
                success = hit is not None
            if tag in ("s_start", "s_char", "s_again_r", "s_again_f", "s_bs") and hist:
                # the report that follows this key
                if nshown >= len(shown):
                    fail_case(res, stream, t, "search key %d %r: no search prompt was written" % (i, cmd))
                    break
                ok, said = shown[nshown]
                nshown += 1
                stats["reports_ok" if ok else "reports_failed"] = stats.get("reports_ok" if ok else "reports_failed", 0) + 1
                if said != term or ok != success:
                    fail_case(res, stream, t, "search key %d %r: the search reports %s for '%s', the reference %s for '%s'" % (
                        i, cmd, "success" if ok else "failure", enc(said), "success" if success else "failure", enc(term)))
                    break
                if ok and term and (find_cp(term, text2) is None or text2 not in hist):
                    fail_case(res, stream, t, "search key %d %r: success is reported for '%s' but the line shown (%s) %s" % (
                        i, cmd, enc(term), enc(text2), "does not contain it" if text2 in hist else "is not a history entry"))
                    break
            res.nontrivial.add((tag, enc(text), enc(term), idx))
            if (text2, pos2) != exp:
                fail_case(res, stream, t, "search key %d %r (text '%s', position %d, %s): expected (%s,%d), shown (%s,%s)" % (
                    i, cmd, enc(term), idx, "reverse" if d == "r" else "forward", enc(exp[0]), exp[1], enc(text2), pos2))
                break
    return stats


def c08_corr(res, exe, driver, tier, seed, tmp):
    cases = p_tty.c08_cases(tier, seed)
    out0 = run_tty_cases(res, exe, driver, cases, tmp, "isearch", compare_output=False, rng=random.Random(seed), typeahead=0.3)
    nprompts = compare_search_prompts(res, out0, "isearch")
    ocases = c08_oracle_cases(tier, seed)
    out, traces = run_spec_stream(res, exe, driver, ocases, tmp, "isearch-spec", seed)
    nprompts += compare_search_prompts(res, out, "isearch-spec")
    res.extra["search_prompts_compared"] = nprompts
    segs = Segs(exe, tmp)
    collect_segs(segs, traces)
    stats = eval_c08(res, traces, segs, WordSpec(ud_tables()), "isearch-spec")
    res.distribution.update({"oracle": stats, "spec_alignment": alignment(traces), "isearch_scripts": len(cases),
                             "spec_scripts": len(ocases)})
    res.rule = ("isearch: random emacs/vi scripts over 0-6 history entries (multi-byte, punctuation, multi-line, case variants), "
                "C-r / C-s, typed search text, Backspace, direction changes, aborts by C-g and lone ESC, exits by other commands, undo "
                "afterwards; compared with the extracted model. isearch-spec: a reference search written here (nearest entry from "
                "the current position, inclusive, containing the text; first occurrence = cursor; repeat = one further; Backspace "
                "does not search; C-g = line and cursor from before; a motion ends the search and acts on the shown entry) "
                "predicts the line and cursor after every key pressed during a search, and what the search REPORTS (the "
                "`(reverse-i-search)` / `(failed reverse-i-search)` prompt and the text in it, read from the bytes written): a "
                "reported success must show a stored entry containing the text. The sequence of search prompts is also compared "
                "with the model's in both streams.")
    for c, impl, model, raw in out[:3]:
        res.samples.append({"keys": c.keys, "impl": " ## ".join(impl)[:400]})


# ---------------------------------------------------------------- C14: completion

C14_CANDS = ["foo", "foobar", "foo bar", "fo", "f", "food", "é", "éa", "日本", "ba", "bar", "baz", "x y", "abc", "abd", "foobaz",
             "日月", "日本語"]


def completer(table, text, pos):
    """the scripted completer of the harness child, restated: the word starts after the last blank before the
    cursor; candidates are the table entries starting with it"""
    before = split_at(text, pos)[0]
    k = 0
    for j, c in enumerate(before):
        if c == 0x20:
            k = j + 1
    start = blen(before[:k])
    word = before[k:]
    if table and table[0] == [0x2A]:      # unfiltered script: every other entry, whatever the word is
        return start, list(table[1:])
    return start, [c for c in table if c[:len(word)] == word]


def gen_c14(rng, ct, cands=()):
    cmds = []
    if cands and rng.random() < 0.75:
        c = rng.choice([x for x in cands if x != "*"] or ["fo"])
        typed = rng.choice(["", "cd ", "a  "]) + c[:rng.randint(0, len(c))]
    else:
        typed = p_tty.rand_text(rng, 0, 6, ["f", "o", "b", "a", " ", "é", "x"])
    for ch in typed:
        cmds.append(Cmd([ch], "ins", c=ord(ch), n=1))
    if rng.random() < 0.4:
        cmds.append(Cmd([rng.choice(["Left", "C-a", "M-b"])], "motion"))
    for _ in range(rng.randint(1, 3)):
        cmds.append(Cmd([rng.choice(["Tab", "Tab", "C-i"])], "c_tab"))
        for _ in range(rng.randint(0, 6)):
            cmds.append(Cmd(["Tab"], "c_tab") if rng.random() < 0.7 else Cmd(["BackTab"], "c_back"))
        r = rng.random()
        if r < 0.3:
            cmds.append(Cmd([rng.choice(["C-g", "Esc", "M-\x07"])], "c_abort"))      # (M-C-g aborts too)
        elif r < 0.7:
            key, tag = rng.choice([("Left", "left"), ("Right", "right"), ("C-a", "home"), ("C-e", "end")])
            cmds.append(Cmd([key], tag))
            if rng.random() < 0.7:
                cmds.append(Cmd(["C-_"], "undo", n=1))
        else:
            ch = rng.choice(["o", "b", " ", "x"])
            cmds.append(Cmd([ch], "ins", c=ord(ch), n=1))
    cmds.append(Cmd(["F12"], "noop"))
    return cmds


def c14_oracle_cases(tier, seed):
    rng = random.Random(seed * 1511 + 19)
    n = 3000 if tier == "thorough" else 260
    cases = []
    for _ in range(n):
        ct = rng.choice(["circular", "circular", "list"])
        cands = rng.sample(C14_CANDS, rng.choice([1, 2, 3, 4, 6]))
        if rng.random() < 0.3:
            # unfiltered script: the completer offers these whatever the word is (shorter, unrelated, empty candidates)
            cands = ["*"] + rng.sample(C14_CANDS + ["", "w", "o"], rng.choice([1, 2, 2, 3, 4]))
        cases.append(script_case(gen_c14(rng, ct, cands), mode="emacs", completion=ct, cands=cands, timeout=0,
                                 prompt=rng.choice(["> ", "日> "]), cols=rng.choice([80, 80, 30]),
                                 initial=p_tty.mk_initial(rng, 0.4, ["f", "o", " ", "b", "a", "é", "|"])))
    # the window is resized while a completion is waiting for its next key: the completion goes on as if nothing had happened
    # (the next Tab shows the next candidate, Escape / C-g still restores the original text)
    for i in range(max(10, n // 15)):
        ct = ["circular", "circular", "list"][i % 3]
        cands = rng.sample(C14_CANDS, rng.choice([2, 3, 4]))
        cmds = gen_c14(rng, ct, cands)
        chunks = [b"".join(p_tty.key_bytes(k) for k in cmd.keys) for cmd in cmds]
        c = script_case(cmds, mode="emacs", completion=ct, cands=cands, timeout=0, prompt="> ", cols=80, chunks=chunks)
        tabs = [k for k, cmd in enumerate(cmds) if cmd.tag in ("c_tab", "c_back")]
        c.meta["events"] = {k: [("winch", rng.choice([60, 30, 100]))] for k in rng.sample(tabs, min(len(tabs), 2))}
        cases.append(c)
    return cases


def lcp(strs):
    p = strs[0]
    for s in strs[1:]:
        k = 0
        while k < len(p) and k < len(s) and p[k] == s[k]:
            k += 1
        p = p[:k]
    return p


def eval_c14(res, traces, segs, ws, stream):
    stats = {}

    def bump(k):
        stats[k] = stats.get(k, 0) + 1

    for t in traces:
        if not t.ok:
            continue
        table = [[ord(ch) for ch in c] for c in t.case.cands]
        circular = t.case.completion == "circular"
        comp = None           # inside a circular completion: dict(start, cands, backup, i, pre, suf)
        accepted = None       # (text before the completion) when a completion has just been accepted by a motion
        listing = False
        for i, (cmd, (text, pos), after, ob) in enumerate(t.steps):
            if after[0] != "state":
                break
            text2, pos2 = after[1], after[2]
            tag = cmd.tag
            exp = None
            if comp is not None:
                n = len(comp["cands"])
                if tag in ("c_tab", "c_back"):
                    comp["i"] = (comp["i"] + 1) % (n + 1) if tag == "c_tab" else (n if comp["i"] == 0 else comp["i"] - 1)
                    bump("cycle")
                elif tag == "c_abort":
                    exp = comp["backup"]
                    comp = None
                    bump("abort")
                else:
                    # any other key keeps what is shown and is executed on it
                    bump("accept")
                    shown_differs = text != comp["backup"][0]
                    base = comp["backup"][0]
                    comp = None
                    e2 = spec_apply(tag, cmd.arg, text, pos, segs, ws)
                    if e2 is not None:
                        exp = e2
                    if tag in MOTION_TAGS and shown_differs:
                        accepted = base
                if comp is not None:
                    k = comp["i"]
                    if k < n:
                        c = comp["cands"][k]
                        exp = (comp["pre"] + c + comp["suf"], blen(comp["pre"]) + blen(c))
                    else:
                        exp = comp["backup"]
            elif tag == "c_tab" and not listing:
                start, cands = completer(table, text, pos)
                accepted = None
                if not cands:
                    exp = (text, pos)
                    bump("tab_no_candidate")
                elif circular:
                    pre = split_at(text, start)[0]
                    suf = split_at(text, pos)[1]
                    comp = {"start": start, "cands": cands, "backup": (text, pos), "i": 0, "pre": pre, "suf": suf}
                    exp = (pre + cands[0] + suf, blen(pre) + blen(cands[0]))
                    bump("tab_circular")
                else:
                    p = lcp(cands)
                    pre = split_at(text, start)[0]
                    suf = split_at(text, pos)[1]
                    if blen(p) > pos - start or len(cands) == 1:
                        exp = (pre + p + suf, blen(pre) + blen(p))
                        bump("tab_list_lcp")
                    else:
                        exp = (text, pos)
                        bump("tab_list_nothing")
                    listing = len(cands) > 1        # the next key is read by the listing logic
            elif tag == "undo" and accepted is not None:
                bump("undo_after_accept")
                if text2 != accepted:
                    fail_case(res, stream, t, "one Undo after the accepted completion gave (%s), not the pre-completion text (%s)" % (
                        enc(text2), enc(accepted)))
                    break
                accepted = None
                continue
            else:
                if listing:
                    listing = False
                    if tag == "c_tab":
                        continue      # the listing itself: not a statement about the text
                if tag not in MOTION_TAGS:
                    accepted = None
                continue
            if exp is not None:
                res.nontrivial.add((tag, enc(text), pos, tuple(t.case.cands)))
                if (text2, pos2) != exp:
                    fail_case(res, stream, t, "completion key %d %r on (%s,%d): expected (%s,%d), shown (%s,%s)" % (
                        i, cmd, enc(text), pos, enc(exp[0]), exp[1], enc(text2), pos2))
                    break
    return stats


def c14_corr(res, exe, driver, tier, seed, tmp):
    cases = p_tty.c14_cases(tier, seed)
    run_tty_cases(res, exe, driver, cases, tmp, "complete", compare_output=False, rng=random.Random(seed), typeahead=0.3)
    ocases = c14_oracle_cases(tier, seed)
    out, traces = run_spec_stream(res, exe, driver, ocases, tmp, "complete-spec", seed)
    segs = Segs(exe, tmp)
    collect_segs(segs, traces)
    stats = eval_c14(res, traces, segs, WordSpec(ud_tables()), "complete-spec")
    res.distribution.update({"oracle": stats, "spec_alignment": alignment(traces), "complete_scripts": len(cases),
                             "spec_scripts": len(ocases)})
    res.rule = ("complete: random emacs/vi scripts with a scripted completer (0-5 candidates incl. multi-byte, shared prefixes, "
                "the empty string, 101+ candidates for the pager question), circular and list mode, Tab / Shift-Tab / C-i, numeric "
                "arguments, aborts, accepts, undo; compared with the extracted model. complete-spec: the completer's answer is "
                "recomputed here from the observed text; every Tab / Shift-Tab must show the predicted candidate inside the span "
                "with the text before and after intact (or the original text at index n), Escape / C-g the original text and cursor, "
                "another key the shown text with that key applied, list mode the longest common prefix when it extends the span, "
                "and one Undo after a completion accepted by a motion the pre-completion text.")
    for c, impl, model, raw in out[:3]:
        res.samples.append({"keys": c.keys, "impl": " ## ".join(impl)[:400]})


# ---------------------------------------------------------------- C17: no crash, no wedge

def c17_text_cases(tier, seed):
    """plain text typed ahead in one or few writes, then Enter: every key that arrived must have taken effect"""
    rng = random.Random(seed * 1709 + 29)
    n = 600 if tier == "thorough" else 80
    cases = []
    for _ in range(n):
        text = p_tty.rand_text(rng, 1, 40, ["a", "b", " ", "é", "日", "😀", "x", ",", "(", ")", "q"])
        parts, i = [], 0
        while i < len(text):
            k = rng.randint(1, 12)
            parts.append(text[i:i + k].encode("utf-8"))
            i += k
        if rng.random() < 0.5:
            parts[-1] += b"\r"
        else:
            parts.append(b"\r")
        mode = rng.choice(["emacs", "vi"])
        c = Case(list(text) + ["Enter"], mode=mode, timeout=0 if mode == "vi" else rng.choice(["none", 0]), prompt="> ",
                 chunks=parts, printer=rng.random() < 0.5, helper=rng.random() < 0.3, cols=rng.choice([80, 20]),
                 meta={"text": text, "highlight": 1} if rng.random() < 0.2 else {"text": text})
        if "highlight" in c.meta:
            c.helper = True
        cases.append(c)
    # the line for the NEXT read typed while the application is busy between two reads of one editor (the terminal is in its
    # cooked mode then, the child stopped): the next read returns it
    for i in range(max(6, n // 12)):
        first = p_tty.rand_text(rng, 1, 8, ["a", "b", "x", "q"])
        second = p_tty.rand_text(rng, 1, 20, ["a", "b", " ", "é", "日", "x", ",", "(", "q"])
        mode = ["emacs", "vi"][i % 2]
        c = Case(list(first) + ["Enter"], mode=mode, timeout=0 if mode == "vi" else ["none", 0][(i // 2) % 2], prompt="> ", reads=2,
                 chunks=[first.encode("utf-8") + b"\r"], printer=i % 3 == 0, cols=80,
                 meta={"text": first, "spec_extra": ["pause 1"], "no_model": 1,
                       "events": {"at_stop:0": second.encode("utf-8") + b"\r"},
                       "expect_results": ["R line:" + enc([ord(ch) for ch in first]), "R line:" + enc([ord(ch) for ch in second])]})
        cases.append(c)
    return cases


def paste_chunks(text):
    """a bracketed paste, cut so that no write exceeds the pty's input queue"""
    body = b"\x1b[200~" + text + b"\x1b[201~"
    return [body[i:i + 3000] for i in range(0, len(body), 3000)]


F19_WITNESS = ("vi", [b"a" * 66000], ["Esc", "R", "Esc", ".", "Enter"])
F20_WITNESS = ("emacs", [b"x\n" + b"a" * 66000], ["Up", "Enter"])
F23_WITNESS = ("vi", [b"a" * 65537 + b"\n"], ["Esc", "k", "j", "Enter"])
F24_WITNESS = ("emacs", [b"\n" * 66000], ["Up", "Enter"])        # beyond the stated bound; kept as the regression of F24


def c17_long_cases(tier, seed):
    """lines around and beyond the u16 limits (RepeatCount, layout Unit = u16): the text arrives as one bracketed paste
    (one command, one observation), then a short script that measures, repeats or re-inserts it. Implementation only:
    the extracted model's unary arithmetic cannot follow 66000-byte lines in reasonable time."""
    rng = random.Random(seed * 2111 + 3)
    n = 60 if tier == "thorough" else 6
    cases = []
    def mk(mode, pastes, keys):
        chunks = []
        for t in pastes:
            chunks += paste_chunks(t)
        chunks += [p_tty.key_bytes(k) for k in keys]
        return Case(["<paste %d bytes>" % sum(len(t) for t in pastes)] + list(keys), mode=mode, timeout=0 if mode == "vi" else "none",
                    prompt="> ", reads=2, chunks=chunks, cols=rng.choice([80, 200]), meta={"long": 1})
    cases.append(mk(*F19_WITNESS))
    cases.append(mk(*F20_WITNESS))
    cases.append(mk(*F23_WITNESS))
    cases.append(mk(*F24_WITNESS))
    VI = [["Esc", "R", "Esc", "."], ["Esc", "s", "Esc", "."], ["Esc", "0", "R", "x", "Esc", "."], ["Esc", "A", "Esc", "."],
          ["Esc", "0", "d", "$", "u", "."], ["Esc", "0", "y", "$", "p", "."], ["Esc", "k", "j"], ["Esc", "x", "."],
          ["Esc", "0", "c", "w", "Esc", "."], ["Esc", "9", "9", "9", "9", "9", "l"], ["Esc", "0", "D", "P", "P"], ["Esc", "~", "."],
          ["Esc", "0", ">", ">", "."], ["Esc", "r", "b", "."], ["Esc", "I", "Esc", "."]]
    EM = [["Up"], ["Down"], ["C-a", "C-k", "C-y", "C-y", "M-y"], ["M-u"], ["M-l", "C-_"], ["C-t"], ["M-t"], ["C-_"],
          ["C-a", "M-9", "M-9", "M-9", "M-9", "M-9", "C-f"], ["C-u", "C-y", "Up", "Down"], ["C-a", "Up", "C-e", "Down"],
          ["M-b", "M-d", "C-y"], ["C-a", "C-v", "C-j", "Up", "Down", "Up"], ["Home", "End", "C-l"]]
    for _ in range(n):
        mode = rng.choice(["vi", "emacs"])
        size = rng.choice([65534, 65535, 65536, 65537, 66000, 70000, 131072 + 5])
        unit = rng.choice([b"a", b"a", b"ab ", b"\xc3\xa9", b"\xe6\x97\xa5", b"x y", b"\n", b"a\n", b"\t"])
        if b"\n" in unit:
            size = min(size, 12000 * len(unit))      # rows stay below u16::MAX even after a few repeats ( . ) of the paste: the layout counts rows in u16 (stated bound)
        text = (unit * (size // len(unit) + 1))[:size]
        while text and (text[-1] & 0xc0) == 0x80 or (text and text[-1] >= 0xc0):
            text = text[:-1]
        pastes = [text]
        r = rng.random()
        if r < 0.4:
            pastes = [rng.choice([b"x\n", b"first line\n", b"\n"]) + text]
        elif r < 0.6:
            pastes = [text + rng.choice([b"\ny", b"\n"])]
        keys = []
        for _ in range(rng.randint(1, 3)):
            keys += rng.choice(VI if mode == "vi" else EM)
        if mode == "vi" and keys[-1] != "Esc" and rng.random() < 0.3:
            keys += ["Esc"]
        cases.append(mk(mode, pastes, keys + ["Enter"]))
    return cases


def c17_corr(res, exe, driver, tier, seed, tmp):
    cases = p_tty.c17_cases(tier, seed)
    out = run_tty_cases(res, exe, driver, cases, tmp, "junk", compare_output=False)
    lcases = c17_long_cases(tier, seed)
    out += run_tty_cases(res, exe, None, lcases, tmp, "long", compare_output=False)
    hcases = p_tty.c17_highlight_cases(tier, seed)
    out += run_tty_cases(res, exe, driver, hcases, tmp, "junk-highlight", compare_output=False, rng=random.Random(seed), typeahead=0.2)
    tcases = c17_text_cases(tier, seed)
    out2 = run_tty_cases(res, exe, driver, tcases, tmp, "typeahead", compare_output=False)
    stats = {"reads": 0, "panic": 0, "wedged": 0, "driver_timeout": 0, "results": {}, "with_signals": 0, "typeahead_lines": 0}
    for (c, impl, model, raw) in out + out2:
        rl = [l for l in raw["obs"] if l.startswith("R ")]
        stats["reads"] += len(rl)
        if c.meta.get("events"):
            stats["with_signals"] += 1
        for l in rl:
            k = l.split(":")[0]
            stats["results"][k] = stats["results"].get(k, 0) + 1
        line = c.model_line(c.chunks if c.chunks is not None else p_tty.chunks_of(c.keys))
        if any(l == "R panic" for l in rl):
            stats["panic"] += 1
            res.oracle_failures.append({"stream": "junk", "case": line, "keys": c.keys, "events": c.meta.get("events"),
                                        "why": "panic: a read panicked (caught by the child's catch_unwind)"})
        elif raw["wedged"] or "timeout" in raw["statuses"]:
            stats["wedged"] += 1
            res.oracle_failures.append({"stream": "junk", "case": line, "keys": c.keys, "events": c.meta.get("events"),
                                        "why": "wedged: the child stopped consuming input / did not finish after the hang-up (statuses %s)" % raw["statuses"][-4:]})
        elif "S done" not in raw["obs"] or len(rl) != c.reads:
            res.oracle_failures.append({"stream": "junk", "case": line, "keys": c.keys, "events": c.meta.get("events"),
                                        "why": "no result: %d results for %d reads" % (len(rl), c.reads)})
        elif c.meta.get("expect_results") and rl != c.meta["expect_results"]:
            res.oracle_failures.append({"stream": "junk", "case": line, "keys": c.keys, "events": jsonable(c.meta.get("events")),
                                        "why": "keys lost: the reads answered %s, expected %s (the second line was typed between the two reads)" % (rl, c.meta["expect_results"])})
        elif c.meta.get("expect_first") and rl and rl[0] != c.meta["expect_first"]:
            # every key that arrived before the accepting Enter has taken effect: the first read returns exactly this
            res.oracle_failures.append({"stream": "junk", "case": line, "keys": c.keys, "events": c.meta.get("events"),
                                        "why": "keys lost or mangled: the first read answered %s, expected %s" % (rl[0], c.meta["expect_first"])})
        res.nontrivial.add(line)
    for (c, impl, model, raw) in out2:
        rl = [l for l in raw["obs"] if l.startswith("R ")]
        want = "R line:" + enc([ord(ch) for ch in c.meta["text"]])
        stats["typeahead_lines"] += 1
        if not rl or rl[0] != want:
            res.oracle_failures.append({"stream": "typeahead", "case": c.model_line(c.chunks), "keys": c.keys,
                                        "why": "keys lost: typed %r in %d writes then Enter, the read returned %s" % (
                                            c.meta["text"], len(c.chunks), rl[:1])})
    res.distribution.update({"oracle": stats, "junk_scripts": len(cases), "highlight_scripts": len(hcases),
                             "typeahead_scripts": len(tcases), "long_scripts": len(lcases)})
    res.rule = ("junk: chunks of arbitrary bytes (ESC runs, truncated / over-long CSI and SS3 sequences, paste without terminator, "
                "huge and negative numeric arguments, NUL and C0/C1 controls, invalid and over-long UTF-8, multi-byte text) alone or "
                "spliced into valid emacs/vi scripts; both modes, 3-6 reads, helpers (completer, hinter, bracket validator, bracket "
                "highlighter) on and off, external printer on and off, narrow windows; window resizes (SIGWINCH via TIOCSWINSZ) and "
                "stop/continue of the child at quiescent points in a quarter of the cases. The child runs every read under catch_unwind; "
                "the driver hangs up at the end. Oracle: no panic, no stall (the child keeps reading until the hang-up and exits), a "
                "result for every read. States before every key are also compared with the extracted model (not for the cases with "
                "signals, where a pending prefix key is forgotten by design). junk-highlight: bracket-heavy lines under the stateful bracket "
                "highlighter with searches, recalls, completions and undo replacing the line. typeahead: text written in few large writes then Enter "
                "must come back complete, with and without a printer. long: lines of 65534..131077 bytes (ASCII and multi-byte, with "
                "and without line breaks) arriving as one bracketed paste, then short vi / emacs scripts that repeat (.), measure "
                "(Up / Down), re-insert (yank, put) or undo them -- implementation only (no model comparison), same crash / stall oracle; "
                "the witnesses of F19 and F20 run first.")
    for c, impl, model, raw in out[:3]:
        res.samples.append({"keys": c.keys, "impl": " ## ".join(impl)[:300]})


# ---------------------------------------------------------------- C16: the terminal is given back as found

def c16_cases(tier, seed):
    rng = random.Random(seed * 1901 + 37)
    n = 2000 if tier == "thorough" else 160
    cases = []
    for _ in range(n):
        mode = rng.choice(["emacs", "emacs", "vi"])
        paste = rng.choice([1, 1, 0])
        signals = rng.choice([0, 0, 1])
        nreads = rng.choice([1, 2, 3, 4])
        panic_at = rng.choice([None, None, 1, 2, 3])
        chunks, keys, ends = [], [], []
        for r in range(nreads):
            # C-z: the suspend command (with the signals option off the key reaches the keymap): rustyline restores the
            # terminal, signals itself (ignored here: the child's process group is orphaned) and enters raw mode again
            # (with the signals option on, C-z is a SIGTSTP from the line discipline and stops the child: not generated)
            prefix = [rng.choice(["a", "b", "é", "Left", "Home", "x", "(", "C-k", "Up"] + ([] if signals else ["C-z", "C-z"]))
                      for _ in range(rng.randint(0, 4))]
            end = rng.choice(["enter", "eof", "intr", "invalid", "helper_error", "tab_or_enter"])
            if end == "intr" and signals:
                end = "enter"
            if end == "eof":
                prefix = []
            for k in prefix:
                chunks.append(p_tty.key_bytes(k))
                keys.append(k)
            if end == "enter":
                chunks.append(b"\r")
            elif end == "eof":
                chunks.append(b"\x04")
            elif end == "intr":
                chunks.append(b"\x03")
            elif end == "invalid":
                chunks.append(b"\xff")
            elif end == "helper_error":
                chunks += [b"#", b"#", b"\r"]
            else:
                chunks += [b"\t", b"\r"]        # the completer / the validator: where a scripted panic strikes
            keys.append("<%s>" % end)
            ends.append(end)
            # in case the read is still open (a panic count not reached, Tab consumed...): close it
            chunks.append(b"\r")
            keys.append("Enter")
        between = [rng.choice(["keep", "keep", "raw", "cooked", "lraw", "vtime", "strip"]) for _ in range(nreads * 3)]
        meta = {"paste": paste, "signals": signals, "pause": 1, "between": between, "ends": ends,
                "raw_initial": rng.choice([False, False, False, "ce", "lraw", "vtime", "strip", "raw"])}
        if panic_at:
            meta["helper_panic_at"] = panic_at
        r9 = rng.random()
        if r9 < 0.08:
            meta["stdout_full"] = 1        # standard output refuses every byte: each read ends with an I/O error, the terminal restored
        elif r9 < 0.16:
            meta["stdout_close_after"] = rng.choice([1, 8, 12, 20, 40])    # ... or is a pipe whose reader goes away after a few bytes
        elif r9 < 0.30:
            meta["stdin_ro"] = 1           # standard input is the terminal opened read-only
        elif r9 < 0.40:
            meta["preferterm"] = 1         # standard input is a pipe, the editor opens the controlling terminal itself (PreferTerm)
        elif r9 < 0.48:
            meta["stdout_relay"] = 1       # `app | cat`: the editor's output is a pipe whose reader copies it to the terminal
        elif r9 < 0.56 and not signals and "C-z" not in keys:
            meta["no_ctty"] = 1            # the terminal is not the process's controlling terminal (a pty slave handed over by a supervisor)
        c = Case(keys, mode=mode, timeout=0, prompt="> ", reads=nreads * 3, chunks=chunks, helper=True, validator="script",
                 cands=["abc", "abd"], meta=meta)
        cases.append(c)
    # output that stalls: a line so long that its repaint does not fit into what the pty takes while nobody reads it; window
    # resizes arrive while the child is blocked in that write (the write is interrupted and must be taken up again); then the
    # terminal is read again and the read ends normally
    for i in range(max(2, n // 50)):
        mode = ["emacs", "vi"][i % 2]
        keys = ["Left", "x", "Enter", "z", "Enter"]        # x goes INTO the line: the whole line is written again
        chunks = [p_tty.key_bytes(k) for k in keys]
        meta = {"paste": 1, "signals": 0, "pause": 1, "between": ["keep"] * 6, "ends": ["enter", "enter"], "raw_initial": False,
                "stall_events": {"stall:1": [70, 80, 90, 75, 85, 95, 72, 80][:5 + i % 4]}}
        c = Case(keys, mode=mode, timeout=0, prompt="> ", reads=3, chunks=chunks, helper=False, initial=("a" * 40000, ""), meta=meta)
        cases.append(c)
    return cases


def _c16_job(job):
    import ptydrive
    exe, spec, chunks, raw_initial, between = job[:5]
    events = job[5] if len(job) > 5 else None
    ctty = job[6] if len(job) > 6 else True
    for attempt in range(2):
        try:
            r = ptydrive.run_case(exe, spec, chunks, raw_initial=raw_initial, between_reads=between, events=events, ctty=ctty)
            r.pop("termios_probe", None)
            return r
        except OSError as e:
            last = e
    return "OSError %s" % last


def tio_key(t):
    """termios.tcgetattr result -> comparable tuple (cc as bytes)"""
    return (t[0], t[1], t[2], t[3], t[4], t[5], tuple(bytes(x) if not isinstance(x, int) else bytes([x]) for x in t[6]))


def c16_corr(res, exe, driver, tier, seed, tmp):
    import multiprocessing
    cases = c16_cases(tier, seed)
    jobs = []
    for c in cases:
        spec = c.spec() + "pause 1\n"
        jobs.append((exe, spec, c.chunks, c.meta["raw_initial"], c.meta["between"], c.meta.get("stall_events"), not c.meta.get("no_ctty")))
    ctx = multiprocessing.get_context("fork")
    with ctx.Pool(NPROC) as pool:
        raws = pool.map(_c16_job, jobs, chunksize=max(1, len(jobs) // (NPROC * 8)))
    stats = {"reads": 0, "ends": {}, "switched_between_reads": 0, "raw_initial": 0, "paste_on": 0, "signals_on": 0}
    PON, POFF = b"\x1b[?2004h", b"\x1b[?2004l"
    steps_cases = []
    for c, raw in zip(cases, raws):
        if isinstance(raw, str):
            raise InfraError("pty driver: " + raw)
        res.evaluations += 1
        line = c.model_line(c.chunks)
        rl = [l for l in raw["obs"] if l.startswith("R ")]
        stops = raw["stops"]
        stats["raw_initial"] += 1 if c.meta["raw_initial"] else 0
        stats["paste_on"] += c.meta["paste"]
        stats["signals_on"] += c.meta["signals"]
        expect = tio_key(raw["termios_initial"])       # what was in force before the read
        prev_out = 0
        prev_obs = 0
        for k, st in enumerate(stops):
            stats["reads"] += 1
            how = rl[k].split(":")[0] if k < len(rl) else "?"
            stats["ends"][how] = stats["ends"].get(how, 0) + 1
            res.nontrivial.add((line, k))
            if tio_key(st["found"]) != expect:
                res.oracle_failures.append({"stream": "rawmode", "case": line, "keys": c.keys, "meta": {k2: v for k2, v in c.meta.items()},
                                            "why": "termios: after read %d (%s) the terminal settings differ from those in force before it: %s vs %s" % (
                                                k, rl[k] if k < len(rl) else "?", st["found"][:4], list(expect[:4]))})
                break
            out = raw["out"][prev_out:st["out_mark"]]
            prev_out = st["out_mark"]
            on, off = out.rfind(PON), out.rfind(POFF)
            if c.meta.get("stdout_full") or c.meta.get("stdout_close_after"):
                pass        # nothing (or only a beginning) reaches the terminal: only the settings are judged
            elif c.meta["paste"]:
                if on < 0 or off < on:
                    res.oracle_failures.append({"stream": "rawmode", "case": line, "keys": c.keys, "meta": dict(c.meta),
                                                "why": "paste: read %d (%s) switched bracketed paste on and did not switch it off again" % (
                                                    k, rl[k] if k < len(rl) else "?")})
                    break
            elif on >= 0:
                res.oracle_failures.append({"stream": "rawmode", "case": line, "keys": c.keys, "meta": dict(c.meta),
                                            "why": "paste: bracketed paste switched on although disabled"})
                break
            if tio_key(st["left"]) != expect:
                stats["switched_between_reads"] += 1
            expect = tio_key(st["left"])
            # the step-level model (Model/RawSteps.v): what the terminal saw of paste switching during this read, given the
            # number of suspend episodes (the child logs the suspend key) and whether output works at all
            if not c.meta.get("stdout_close_after"):
                obs_seg = raw["obs"][prev_obs:st["obs_mark"]]
                nz = sum(1 for l in obs_seg if l == "Z")
                seq, i = "", 0
                while True:
                    a, b = out.find(PON, i), out.find(POFF, i)
                    if a < 0 and b < 0:
                        break
                    if b < 0 or (0 <= a < b):
                        seq, i = seq + "h", a + len(PON)
                    else:
                        seq, i = seq + "l", b + len(POFF)
                steps_cases.append(("%d %d %s" % (c.meta["paste"], nz, "fail" if c.meta.get("stdout_full") else "ok"), seq or "-", line, k))
            prev_obs = st["obs_mark"]
        if not stops:
            raise InfraError("rawmode: the child never paused after a read (%d results) keys=%r meta=%r obs=%r statuses=%r wedged=%r" % (
                len(rl), c.keys, {k2: v for k2, v in c.meta.items() if k2 != "between"}, raw["obs"], raw["statuses"], raw["wedged"]))
    if driver and steps_cases:
        lines = sorted(set(sc[0] for sc in steps_cases))
        model = dict(zip(lines, run_model(driver, "rawsteps", lines, tmp)))
        stats["rawsteps"] = {"reads_compared": len(steps_cases), "with_suspend": sum(1 for sc in steps_cases if sc[0].split()[1] != "0"),
                             "distinct_model_cases": len(lines)}
        for ml, seq, line, k in steps_cases:
            mo = model[ml].split()
            if mo[1] != "restored" or mo[0] != seq:
                res.disagreements.append({"stream": "rawsteps", "case": "%s | read %d of %s" % (ml, k, line), "impl": seq, "model": model[ml]})
    res.distribution.update({"oracle": stats, "scripts": len(cases)})
    res.rule = ("rawsteps: for every completed read whose output is the terminal or /dev/full, the sequence of bracketed-paste "
                "switches in the bytes the terminal received (h = on, l = off) is compared with the step-level model's for the same "
                "paste option, number of suspend episodes (the child logs each suspend key) and working / failing output. "
                "rawmode: 1-4 reads on one editor; each read is a short key prefix ended by Enter, C-d on an empty line, C-c, an "
                "undecodable byte, a validator error, or Tab/Enter hitting a scripted helper panic at its k-th call; the prefix may contain the "
                "suspend key C-z (signals option off: rustyline restores the terminal, signals itself, re-enters raw mode); emacs and vi; "
                "bracketed paste on/off; the signals option on/off; the terminal initially cooked, without canonical mode and echo, "
                "raw, raw with VMIN 0 / VTIME 5, with only the four local flags off that raw mode clears (input flags cooked), or "
                "cooked with ISTRIP / INPCK on; in some scripts standard output is /dev/full (every write fails, every read ends with an I/O error) or a pipe whose reader goes away after a few bytes (writes fail later), in some standard input is the terminal opened read-only. The child stops itself "
                "(SIGSTOP) after every read; the driver then reads the terminal settings with tcgetattr, compares them field by field "
                "(flags, speeds, all control characters) with those in force before that read, checks that the last ESC[?2004h of the "
                "read's output is followed by ESC[?2004l, and switches the terminal to one of those modes before resuming (so a later read "
                "must restore what IT found, not what the first read found).")
    for c, raw in list(zip(cases, raws))[:3]:
        res.samples.append({"keys": c.keys, "results": [l for l in raw["obs"] if l.startswith("R ")], "meta": {k: v for k, v in c.meta.items() if k != "between"}})


# ---------------------------------------------------------------- C02: what the terminal shows

import vt

C02_TEXT = ["a", "b", "c", " ", " ", "x", "é", "日", "本", "😀", "́", "̈", ",", "(", "w", "m", ")", "(", ")", "["]


def gen_c02(rng, mode):
    cmds = []
    insert = True
    for _ in range(rng.randint(3, 30)):
        r = rng.random()
        if mode == "emacs" or insert:
            if r < 0.55:
                c = rng.choice(C02_TEXT)
                cmds.append(Cmd([c], "ins", c=ord(c), n=1))
            elif r < 0.60:
                cmds.append(Cmd(["C-v", "C-j"], "ins", c=LF, n=1))
            elif r < 0.75:
                cmds.append(Cmd([rng.choice(["Left", "Right", "Home", "End", "C-b", "C-f"] + (["M-b", "M-f", "C-a", "C-e"] if mode == "emacs" else []))], "motion"))
            elif r < 0.85:
                cmds.append(Cmd([rng.choice(["Backspace", "C-h", "Delete"])], "edit"))
            elif r < 0.93:
                cmds.append(Cmd([rng.choice(["C-k", "C-u", "C-w", "C-y", "C-_", "C-t", "Up", "Down", "C-l"] if mode == "emacs"
                                            else ["C-u", "C-w", "Up", "Down"])], "edit"))
            elif mode == "vi":
                cmds.append(Cmd(["Esc"], "motion"))
                insert = False
            else:
                cmds.append(Cmd([rng.choice(["M-u", "M-c", "M-t", "M-d"])], "edit"))
        else:
            if r < 0.5:
                cmds.append(Cmd([rng.choice(["h", "l", "0", "$", "w", "b", "e", "j", "k"])], "motion"))
            elif r < 0.75:
                cmds.append(Cmd([rng.choice(["x", "X", "D", "p", "P", "u", "~"])], "edit"))
            else:
                cmds.append(Cmd([rng.choice(["i", "a", "A", "I"])], "motion"))
                insert = True
    cmds.append(Cmd(["F12"], "noop"))
    cmds.append(Cmd(["Enter"], "enter"))
    return cmds


def c02_cases(tier, seed):
    rng = random.Random(seed * 2003 + 41)
    n = 3000 if tier == "thorough" else 260
    cases = []
    for _ in range(n):
        mode = rng.choice(["emacs", "emacs", "vi"])
        cols = rng.choice([4, 5, 8, 10, 12, 20, 20, 40, 80])
        prompt = rng.choice(["", "> ", "日> ", ">> ", "st: ok\n> ", "\x1b[1;32m>>\x1b[0m ", "\x1b[91m>>\x1b[39m ", "\x1b[38;5;196m>\x1b[0m ",
                             "\x1b[4;7;45m$\x1b[m \x1b[38;2;10;60;89mx\x1b[0m "])
        hist = [rng.choice(["one", "two words", "é日本", "l1\nl2\nl3", "x" * 25, "日" * 9]) for _ in range(rng.choice([0, 1, 2]))]
        hints = ["abc def", "日本語", "x" * 30, "a b c d e f g h i j k"] if rng.random() < 0.3 else None
        cmds = gen_c02(rng, mode)
        # one chunk per command (a command may be several keys: C-v C-j)
        chunks = []
        for cmd in cmds:
            b = b"".join(p_tty.key_bytes(k) for k in cmd.keys)
            chunks.append(b)      # every intermediate screen is looked at (a state of a recorded class taints what follows)
        c = script_case(cmds, mode=mode, cols=cols, prompt=prompt, history=hist, hints=hints, chunks=chunks,
                        timeout=0 if mode == "vi" else rng.choice(["none", 0]),
                        initial=p_tty.mk_initial(rng, 0.25, C02_TEXT + ["\n"] + (["\t", "\t"] if cols >= 20 else [])))
        if rng.random() < 0.3:
            c.meta["tab_stop"] = rng.choice([1, 2, 3, 4, 8, 16])
        if rng.random() < 0.15:
            # the bracket highlighter colours the line (SGR sequences inside the text written): judged by the emulator only,
            # the model has no highlighter
            c.meta["highlight"] = 1
            c.meta["no_model"] = 1
            c.helper = True
        cases.append(c)
    # hints that are really shown: the typed line is a prefix of a hint whose rest ends exactly at, just before or just
    # after the right margin (the line itself possibly ending in a line break), then motions, completion of the hint, edits,
    # and every way of ending the read (Enter, and in vi C-d on a non-empty line: the hint must be gone when the read returns)
    for _ in range(n // 5):
        mode = rng.choice(["emacs", "vi", "vi"])
        cols = rng.choice([8, 10, 20])
        prompt = rng.choice(["", "> "])
        base = p_tty.rand_text(rng, 1, 4, ["a", "b", "x"])
        lf = rng.random() < 0.4
        line = base + ("\n" if lf else "")
        used = 0 if lf else (len(prompt) + len(base)) % cols
        rest_len = (cols - used) + rng.choice([0, 0, 0, -1, 1, cols]) + (cols if used == 0 and not lf else 0) * 0
        rest_len = max(1, rest_len)
        hints = [line + "h" * rest_len]
        cmds = [Cmd([ch], "ins", c=ord(ch), n=1) for ch in base]
        if lf:
            cmds.append(Cmd(["C-v", "C-j"], "ins", c=LF, n=1))
        for _ in range(rng.randint(0, 4)):
            r = rng.random()
            if r < 0.4:
                cmds.append(Cmd([rng.choice(["Left", "Right", "Home", "End"])], "motion"))
            elif r < 0.6:
                cmds.append(Cmd([rng.choice(["Backspace", "C-h"])], "edit"))
            else:
                c = rng.choice(["a", "h", "x"])
                cmds.append(Cmd([c], "ins", c=ord(c), n=1))
        cmds.append(Cmd(["F12"], "noop"))
        r9 = rng.random()
        cmds.append(Cmd(["C-c"], "enter") if r9 < 0.3 else Cmd(["C-d"], "enter") if mode == "vi" and r9 < 0.7 else Cmd(["Enter"], "enter"))
        chunks = [b"".join(p_tty.key_bytes(k) for k in cmd.keys) for cmd in cmds]
        cases.append(script_case(cmds, mode=mode, cols=cols, prompt=prompt, hints=hints, chunks=chunks,
                                 timeout=0 if mode == "vi" else rng.choice(["none", 0])))
    # the window resized (narrower than the prompt, wider, to where the line wraps) during a read, then C-l and more keys: from the
    # cleared screen on everything is laid out for the NEW width (prompt size, cursor, end)
    for i in range(max(6, n // 30)):
        prompt = ["a prompt of 19 col> ", "> ", "日本> ", "st: ok\n> "][i % 4]
        cols0 = rng.choice([30, 40])
        body = p_tty.rand_text(rng, 2, 12, ["a", "b", " ", "日", "x"])
        cmds = [Cmd([ch], "ins", c=ord(ch), n=1) for ch in body]
        at = len(cmds) - 1
        newc = [12, 8, 60, 20, 10][i % 5]
        cmds += [Cmd(["C-l"], "motion")]
        for _ in range(rng.randint(2, 5)):
            r = rng.random()
            if r < 0.4:
                cmds.append(Cmd([rng.choice(["Left", "Right", "C-a", "C-e"])], "motion"))
            elif r < 0.8:
                ch = rng.choice(["a", "y", "日"])
                cmds.append(Cmd([ch], "ins", c=ord(ch), n=1))
            else:
                cmds.append(Cmd([rng.choice(["Backspace", "C-k"])], "edit"))
        cmds += [Cmd(["F12"], "noop"), Cmd(["Enter"], "enter")]
        chunks = [b"".join(p_tty.key_bytes(k) for k in cmd.keys) for cmd in cmds]
        # (emacs mode: C-l is clear-screen there)
        c = script_case(cmds, mode="emacs", cols=cols0, prompt=prompt, chunks=chunks, timeout=rng.choice(["none", 0]))
        c.meta.update({"events": {at: [("winch", newc)]}, "resize_at": {at: newc}})
        cases.append(c)
    # the window shrinks to EXACTLY the width of prompt + line (one row; the cursor at the end then belongs on the next row), or to
    # one cell more, then cursor motions: every later picture and cursor cell is right for the new width
    for i in range(max(8, n // 25)):
        prompt = ["> ", "日本> ", "", "ab> "][i % 4]
        body = p_tty.rand_text(rng, 3, 14, ["a", "b", " ", "x", "y"])
        cmds = [Cmd([ch], "ins", c=ord(ch), n=1) for ch in body]
        at = len(cmds) - 1
        pw = sum(2 if ord(ch) > 0x2e80 else 1 for ch in prompt)
        newc = pw + len(body) + (i // 4) % 2
        for key in [["C-b", "C-a", "C-e", "C-b"], ["C-a", "C-f", "C-e"], ["C-b", "C-b", "C-f", "C-f"]][i % 3]:
            cmds.append(Cmd([key], "motion"))
        cmds += [Cmd(["F12"], "noop"), Cmd(["Enter"], "enter")]
        chunks = [b"".join(p_tty.key_bytes(k) for k in cmd.keys) for cmd in cmds]
        c = script_case(cmds, mode="emacs", cols=[40, 30][i % 2], prompt=prompt, chunks=chunks, timeout=rng.choice(["none", 0]))
        c.meta.update({"events": {at: [("winch", newc)]}, "resize_at": {at: newc}, "resize_fits": 1})
        cases.append(c)
    # a validator message shown while the cursor is INSIDE the line (Enter there), text + message wrapping around a narrow
    # window, then repaints in that state: motions, insertions, deletions, another Enter
    for i in range(max(8, n // 12)):
        cols = [8, 10, 12, 20][i % 4]
        prompt = rng.choice(["", "> "])
        body = p_tty.rand_text(rng, 1, 4, ["a", "b", "x"]) + "!!" + p_tty.rand_text(rng, 2, 2 * cols, ["c", "d", " ", "e"])
        cmds = [Cmd([ch], "ins", c=ord(ch), n=1) for ch in body]
        cmds += [Cmd(["Left"], "motion")] * rng.randint(1, min(len(body), cols + 3)) if i % 3 else [Cmd(["C-a"], "motion")]
        cmds.append(Cmd(["Enter"], "enter"))
        for _ in range(rng.randint(1, 5)):
            r = rng.random()
            if r < 0.35:
                cmds.append(Cmd([rng.choice(["Left", "Right", "C-a", "C-e"])], "motion"))
            elif r < 0.7:
                c = rng.choice(["a", "x", "y"])
                cmds.append(Cmd([c], "ins", c=ord(c), n=1))
            elif r < 0.85:
                cmds.append(Cmd([rng.choice(["Backspace", "C-d", "C-k"])], "edit"))
            else:
                cmds.append(Cmd(["Enter"], "enter"))
        cmds += [Cmd(["F12"], "noop"), Cmd(["C-a"], "motion"), Cmd(["C-k"], "edit"), Cmd(["Enter"], "enter")]
        chunks = [b"".join(p_tty.key_bytes(k) for k in cmd.keys) for cmd in cmds]
        cases.append(script_case(cmds, mode="emacs", cols=cols, prompt=prompt, validator="script", chunks=chunks, timeout="none"))
    return cases


def strip_ansi(text):
    """what a prompt with colour sequences shows"""
    out, i = [], 0
    while i < len(text):
        if text[i] == 0x1b and i + 1 < len(text) and text[i + 1] == 0x5b:
            j = i + 2
            while j < len(text) and not (0x40 <= text[j] <= 0x7e):
                j += 1
            i = j + 1
        else:
            out.append(text[i])
            i += 1
    return out


def eval_c02(res, cases_out, stream, width):
    stats = {"points": 0, "screens_with_wrap": 0, "wide_at_margin": 0, "final": 0}
    for (c, impl, model, raw) in cases_out:
        t = Trace(c, impl)
        if "R panic" in raw["obs"] and "helper_panic_at" not in c.meta:
            # (a read that panicked shows nothing right from there on: rustyline's own debug assertions about the layout end here)
            why = [l for l in raw["obs"] if l.startswith("E panic")][:1]
            res.oracle_failures.append({"stream": stream, "case": c.model_line(c.chunks if c.chunks is not None else p_tty.chunks_of(c.keys)),
                                        "keys": c.keys, "events": jsonable(c.meta.get("events")),
                                        "why": "the read panicked while drawing: %s" % (why[0] if why else "R panic")})
            continue
        if not t.ok or c.reads != 1:
            continue
        out = raw["out"]
        a = out.find(b"\x1b[?2004h")
        if a < 0:
            continue
        base = a + 8
        try:
            decoded = lambda b: [ord(ch) for ch in b.decode("utf-8")]
            marks, omarks = raw["marks"], raw["obs_marks"]
            obs_lines = [l for l in raw["obs"] if l.startswith("K ")]
        except UnicodeDecodeError:
            continue
        prompt = strip_ansi([ord(ch) for ch in c.prompt])
        scr = vt.Screen(c.cols, width, int(c.meta.get("tab_stop", 8)))
        fed = base
        msg_state = None
        cols_now, unknown = c.cols, False
        resize_at = c.meta.get("resize_at") or {}
        nobs_before = [sum(1 for l in raw["obs"][:m] if l.startswith("K ")) for m in omarks]
        # marks[k] / omarks[k]: output length and observation count once chunk k-1 has been consumed (k=0: start-up)
        for k in range(len(marks)):
            end = marks[k]
            if end < fed:
                continue
            try:
                piece = decoded(out[fed:end])
            except UnicodeDecodeError:
                break
            # stop before the end-of-read sequence
            if (k - 1) in resize_at and c.meta.get("resize_fits"):
                # the window shrinks to a width the one-row picture still fits in (exactly, or with a cell to spare): nothing for
                # the terminal to re-wrap, so the picture goes on being judged -- what was written before the resize is shown for the
                # old width, what the editor writes on the signal (a repaint, if it makes one) and later for the new width
                wm = [m for m in raw.get("winch_marks", []) if fed <= m <= end]
                if not wm:
                    break
                try:
                    scr.feed(decoded(out[fed:wm[0]]))
                    piece = decoded(out[wm[0]:end])
                except UnicodeDecodeError:
                    break
                cols_now = resize_at[k - 1]
                scr.W = cols_now
                for rr in list(scr.rows):
                    scr.rows[rr] = (scr.rows[rr] + [None] * cols_now)[:cols_now]
                scr.c = min(scr.c, cols_now - 1)
                scr.pending = False
                stats["resize_fits"] = stats.get("resize_fits", 0) + 1
            scr.feed(piece)
            fed = end
            if (k - 1) in resize_at and not c.meta.get("resize_fits"):
                # the window was resized after chunk k-1: what a terminal shows of the OLD picture is its own business; judged again
                # once the screen has been cleared (C-l) and drawn afresh
                cols_now = resize_at[k - 1]
                scr.W = cols_now
                for rr in list(scr.rows):
                    scr.rows[rr] = (scr.rows[rr] + [None] * cols_now)[:cols_now]
                scr.c = min(scr.c, cols_now - 1)
                unknown = True
            if unknown:
                if any(piece[q:q + 3] == [0x1b, 0x5b, 0x48] for q in range(len(piece) - 2)):
                    unknown = False
                    scr.flags = []
                else:
                    continue
            j = nobs_before[k]                 # the next observation tells the state the screen must show now
            if j >= len(t.steps):
                continue
            cmd, (text, pos), after, ob = t.steps[j]
            hint = ob[5] or []
            alt = None
            if j > 0 and c.validator != "none" and t.steps[j - 1][0].tag == "enter":
                # an Enter the validator answered with Invalid + message: the message is shown where a hint would be
                verdict = VERDICTS.get(c.validator, verdict_brackets)(t.steps[j - 1][1][0])
                msg_state = None
                if verdict[0] == "invalid" and verdict[1]:
                    msg_state = ((text, pos), [ord(ch) for ch in verdict[1]])
                    hint = msg_state[1]
                    stats["validator_messages"] = stats.get("validator_messages", 0) + 1
            elif msg_state and j > 0:
                # C02 speaks of prompt + line (+ hint); a validator's message stays on the screen until the next FULL repaint
                # (a cursor motion only moves the cursor, a character appended at the end is only written): until a command
                # that certainly repaints everything (the text changed otherwise than by an insertion at its end) the screen
                # may show the message or not, and after an appended character it is not judged
                ptext, ppos = t.steps[j - 1][1]
                if ptext == text and msg_state[1] is not None:
                    alt = msg_state[1]
                elif ptext == text or (t.steps[j - 1][0].tag == "ins" and ppos == cp_blen(ptext)):
                    msg_state = (None, None)       # characters were written over the message: until the next full repaint
                    stats["after_message_not_judged"] = stats.get("after_message_not_judged", 0) + 1
                    continue
                else:
                    msg_state = None
            pre, suf = split_at(text, pos)
            rows, cur, cur_next, exp = vt.layout(cols_now, width, prompt + pre, suf, hint, tab=int(c.meta.get("tab_stop", 8)))
            if alt is not None and scr.text_rows() != rows:
                rows, cur, cur_next, exp = vt.layout(cols_now, width, prompt + pre, suf, alt, tab=int(c.meta.get("tab_stop", 8)))
            if exp.known_class:
                # recorded findings: rustyline's row arithmetic and the terminal disagree on these texts, and what is
                # drawn afterwards is affected too: the rest of this script is not judged
                stats[exp.known_class] = stats.get(exp.known_class, 0) + 1
                break
            stats["points"] += 1
            if len(rows) > 1:
                stats["screens_with_wrap"] += 1
            res.nontrivial.add((cols_now, enc(text), pos))
            got = scr.text_rows()
            why = None
            if scr.flags:
                why = "terminal: " + scr.flags[0]
            elif got != rows:
                why = "screen: after chunk %d the terminal shows %r, the prompt + line (+ hint) laid out on a blank screen is %r" % (k, got, rows)
            elif scr.cursor() != cur and not (scr.pending and (scr.r + 1, 0) == cur and False):
                if scr.cursor() == cur_next or cur == cur_next:
                    why = "cursor: after chunk %d the terminal cursor is on cell %s, the logical cursor (byte %d of %r) is on cell %s" % (
                        k, scr.cursor(), pos, "".join(chr(x) for x in text), cur)
                else:
                    why = "cursor: after chunk %d the terminal cursor is on cell %s, expected %s" % (k, scr.cursor(), cur)
            if why is None and cur_next != cur:
                stats["wide_at_margin"] += 1
            if why:
                fail_case(res, stream, t, why + "  [cols=%d prompt=%r text=%s pos=%d]" % (cols_now, c.prompt, enc(text), pos))
                break
        else:
            # the read returned: the cursor is after the last character so that what the application prints starts on a fresh row
            b = out.find(b"\x1b[?2004l", base)
            ended = t.steps[-1][2] if t.steps else (None,)
            if b > 0 and not unknown and (ended[0] == "line" or (ended[0] == "end" and ended[1] == "int")):
                try:
                    scr.feed(decoded(out[fed:]))
                except UnicodeDecodeError:
                    continue
                if ended[0] == "line":
                    line = ended[1]
                else:
                    # Ctrl-C: the text (and the hint shown with it) stay as they are; what the application prints next starts below
                    line = t.steps[-1][1][0] + (t.steps[-1][3][5] or [])
                    stats["final_interrupted"] = stats.get("final_interrupted", 0) + 1
                rows, cur, _, exp = vt.layout(cols_now, width, prompt + line, [], [], tab=int(c.meta.get("tab_stop", 8)))
                if exp.known_class:
                    continue
                stats["final"] += 1
                got = scr.text_rows()
                if scr.flags:
                    fail_case(res, stream, t, "terminal: " + scr.flags[0])
                elif got != rows:
                    fail_case(res, stream, t, "final: when the read returned the terminal showed %r, expected %r  [cols=%d]" % (got, rows, c.cols))
                elif scr.cursor() != (cur[0] + 1, 0) or scr.pending:
                    fail_case(res, stream, t, "final: when the read returned the cursor was on %s; the line ends on cell %s, so a fresh row starts at %s  [cols=%d text=%s]" % (
                        scr.cursor(), cur, (cur[0] + 1, 0), c.cols, enc(line)))
    return stats


C02_WITNESS = {
    "K_fullrow_lf": dict(cols=10, prompt=">> ", keys=["a", "b", "c", "d", "e", "f", "C-v", "C-j", "Left", "g", "F12"]),
    "K_zw_after_lf": dict(cols=20, prompt="> ", keys=["a", "C-v", "C-j", "́", "x", "F12"]),
    "K_tab_margin": dict(cols=20, prompt="> ", keys=["a"] * 15 + ["C-v", "Tab", "x", "F12"]),
}


def c02_screen_of(exe, width, cols, prompt, keys):
    """(terminal rows, terminal cursor, expected rows, expected cursor) once the keys have been handled"""
    import ptydrive
    c = Case(keys, cols=cols, prompt=prompt, timeout=0)
    r = ptydrive.run_case(exe, c.spec(), p_tty.chunks_of(c.keys), cols=cols)
    out = r["out"]
    a = out.find(b"\x1b[?2004h") + 8
    scr = vt.Screen(cols, width)
    scr.feed([ord(ch) for ch in out[a:].decode("utf-8", "replace")])
    last = [l for l in r["obs"] if l.startswith("K ")][-1].split()
    text, pos = dec(last[1]), int(last[2])
    pre, suf = split_at(text, pos)
    rows, cur, _, exp = vt.layout(cols, width, [ord(ch) for ch in prompt] + pre, suf, [])
    return scr.text_rows(), scr.cursor(), rows, cur


def c02_known(res, exe, width):
    known = {f["id"]: f for f in known_findings() if f["property"] == "C02" and f["status"] == "known"}
    for kid, w in C02_WITNESS.items():
        if kid not in known:
            continue
        got_rows, got_cur, rows, cur = c02_screen_of(exe, width, w["cols"], w["prompt"], w["keys"])
        if got_rows != rows or got_cur != cur:
            res.known_confirmed.append((kid, "%s: keys %s in %d columns: the terminal shows %r with the cursor on %s, expected %r with the cursor on %s" % (
                known[kid]["what"][:90], " ".join(w["keys"][:-1]), w["cols"], got_rows, got_cur, rows, cur)))


def c02_corr(res, exe, driver, tier, seed, tmp):
    c02_known(res, exe, vt.Widths(ud_tables()))
    cases = c02_cases(tier, seed)
    out = run_tty_cases(res, exe, driver, cases, tmp, "screen")
    width = vt.Widths(ud_tables())
    stats = eval_c02(res, out, "screen", width)
    # what the terminal shows during the other properties' flows (search prompt, candidates, recalled entries, undo,
    # kills and yanks, validator messages, arbitrary key scripts): their own checks compare states only; here every byte
    # written by a sample of their scripts is compared with the render model
    flows = {}
    for name, gen in (("keys", p_tty.c01_cases), ("undo", p_tty.c05_cases), ("kill", p_tty.c06_cases), ("recall", p_tty.c07_cases),
                      ("isearch", p_tty.c08_cases), ("validate", p_tty.c13_cases), ("complete", p_tty.c14_cases)):
        fc = gen("quick", seed)
        fc = fc[:: 2] if tier != "thorough" else fc
        run_tty_cases(res, exe, driver, fc, tmp, "screen-" + name, rng=random.Random(seed + 5), typeahead=0.3)
        flows[name] = len(fc)
    stats["flows"] = flows
    res.distribution.update({"oracle": stats, "scripts": len(cases)})
    res.rule = ("screen: emacs and vi scripts (text of width 0, 1 and 2, line breaks, motions, deletes, kills, yank, undo, history recall of "
                "multi-line and over-wide entries, clear-screen, hints) in windows of 4 to 80 columns with plain, wide and coloured "
                "prompts. (i) every byte written is compared with the render model (extracted Render.v inside the Editor model). (ii) "
                "independently of that model a VT100 emulator written for this check interprets all bytes the implementation wrote; after "
                "every chunk the screen from the anchor row down must equal the prompt + line + hint laid out on a blank screen by the "
                "same emulator, nothing left over, and the cursor must be on the cell of the logical cursor; when the read returns the "
                "cursor must be after the last character. screen-<flow>: a sample of the scripts of the other interactive "
                "properties (keys, undo, kill, recall, isearch, validate, complete) with every byte written compared with the "
                "render model -- those properties' own checks compare states, arguments and results only.")
    for c, impl, model, raw in out[:3]:
        res.samples.append({"keys": c.keys, "cols": c.cols, "impl": " ## ".join(impl)[:300]})


# ---------------------------------------------------------------- C19: messages from other threads

def gen_c19(rng, mode):
    cmds = []
    insert = True
    for _ in range(rng.randint(2, 14)):
        r = rng.random()
        if mode == "emacs" or insert:
            if r < 0.6:
                c = rng.choice(["a", "b", " ", "é", "日", "x", ",", "w"])
                cmds.append(Cmd([c], "ins", c=ord(c), n=1))
            elif r < 0.8:
                cmds.append(Cmd([rng.choice(["Left", "Right", "Home", "End"])], "motion"))
            elif r < 0.88:
                # kills, yanks, yank-pop and undo mean something only as the successor of the previous command: a message shown
                # in between is not a command
                cmds.append(Cmd([rng.choice(["Backspace", "C-u", "C-w"] + (["C-w", "C-k", "M-d", "C-y", "M-y", "C-_", "M-Backspace"]
                                                                          if mode == "emacs" else []))], "edit"))
            elif r < 0.92:
                # suspend (signals option off: the key reaches the keymap; the terminal is restored, the process signals
                # itself -- ignored here -- and raw mode is entered again): messages after it are still the editor's to show
                cmds.append(Cmd(["C-z"], "motion"))
            elif mode == "vi":
                cmds.append(Cmd(["Esc"], "motion"))
                insert = False
            else:
                cmds.append(Cmd(["C-v", "C-j"], "ins", c=LF, n=1))
        else:
            if r < 0.6:
                cmds.append(Cmd([rng.choice(["h", "l", "0", "$", "x"])], "motion"))
            else:
                cmds.append(Cmd([rng.choice(["i", "a", "A"])], "motion"))
                insert = True
    return cmds


def c19_cases(tier, seed):
    rng = random.Random(seed * 2111 + 43)
    n = 2000 if tier == "thorough" else 200
    cases = []
    for _ in range(n):
        mode = rng.choice(["emacs", "emacs", "vi"])
        nthreads = rng.choice([1, 2, 3])
        cmds = gen_c19(rng, mode) + [Cmd(["F12"], "noop"), Cmd(["Enter"], "enter")]
        if rng.random() < 0.4:
            cmds += gen_c19(rng, "emacs" if mode == "emacs" else "vi")[:5] + [Cmd(["F12"], "noop"), Cmd(["Enter"], "enter")]
        chunks = [b"".join(p_tty.key_bytes(k) for k in cmd.keys) for cmd in cmds]
        prints, serial = {}, 0
        for k, cmd in enumerate(cmds):
            if cmd.tag == "enter":
                continue           # between reads the editor is not involved (the printer writes directly): not scheduled here
            if rng.random() < 0.3:
                lst = []
                for _ in range(rng.choice([1, 1, 2, 3])):
                    t = rng.randrange(nthreads)
                    body = rng.choice(["msg", "日本", "a longer message that wraps around the window edge twice or so", "two\nlines", "é"])
                    text = "<%d:%d:%s>" % (t, serial, body) + ("\n" if rng.random() < 0.3 else "")
                    serial += 1
                    lst.append((t, text))
                prints[k] = lst
        # (prompts of one row, and of two: a status line above the prompt proper)
        c = script_case(cmds, mode=mode, chunks=chunks, cols=rng.choice([80, 40, 20]), prompt=rng.choice(["> ", "日> ", "> ", "st: ok\n> "]),
                        timeout=0 if mode == "vi" else rng.choice(["none", 0]), reads=2,
                        initial=p_tty.mk_initial(rng, 0.2, ["a", "b", " ", "é"]))
        c.meta["printers"] = nthreads
        c.meta["prints"] = prints
        cases.append(c)
    # a message between two commands that belong together (kill + kill, yank + yank-pop, insert + insert then undo), and a
    # message while a hint is showing: the message is not a command, and the repaint below it shows the hint again
    pairs = [(["a", "b", "c", " ", "d", "e", "f"], ["C-w"], ["C-w", "C-y"]), (["x", "y", " ", "z"], ["C-a", "C-k"], ["C-y", "C-y"]),
             (["k", "1", " ", "k", "2"], ["C-w", "C-w", "C-y"], ["M-y"]), (["a", " ", "b"], ["M-Backspace"], ["M-Backspace", "C-y"]),
             (["a", "b"], ["c"], ["d", "C-_"]), (["h", "e"], ["l"], ["Right"]), (["h", "e", "l"], [], ["End", "!"]),
             (["a", " ", "b", " ", "c"], ["C-a", "M-d"], ["M-d", "C-e", "C-y"])]
    for i in range(max(len(pairs), n // 12)):
        pre, a, b = pairs[i % len(pairs)]
        keys = pre + a
        cmds = [Cmd([k], "ins" if len(k) == 1 else "edit", **({"c": ord(k), "n": 1} if len(k) == 1 else {})) for k in keys]
        at = len(cmds)
        cmds += [Cmd([k], "ins" if len(k) == 1 else "edit", **({"c": ord(k), "n": 1} if len(k) == 1 else {})) for k in b]
        cmds += [Cmd(["F12"], "noop"), Cmd(["Enter"], "enter")]
        chunks = [b"".join(p_tty.key_bytes(k) for k in cmd.keys) for cmd in cmds]
        text = "<0:0:%s>" % rng.choice(["msg", "two\nlines", "日本"]) + ("\n" if i % 3 == 0 else "")
        c = script_case(cmds, mode="emacs", chunks=chunks, cols=rng.choice([80, 20]), prompt="> ", timeout="none", reads=1,
                        hints=["hello there"] if pre[0] == "h" else None)
        c.meta["printers"] = 1
        c.meta["prints"] = {at - 1: [(0, text)]}       # handed over once the command at - 1 has been carried out
        cases.append(c)
    # printer lifetimes: a printer is created and dropped before the first read, which runs with no printer alive; the
    # session's printers are created only after it and print during the second read
    for _ in range(n // 5):
        mode = rng.choice(["emacs", "emacs", "vi"])
        nthreads = rng.choice([1, 2])
        cmds1 = gen_c19(rng, mode)[:rng.randint(1, 4)] + [Cmd(["F12"], "noop"), Cmd(["Enter"], "enter")]
        cmds = cmds1 + gen_c19(rng, "emacs" if mode == "emacs" else "vi") + [Cmd(["F12"], "noop"), Cmd(["Enter"], "enter")]
        chunks = [b"".join(p_tty.key_bytes(k) for k in cmd.keys) for cmd in cmds]
        prints, serial = {}, 0
        for k, cmd in enumerate(cmds):
            if k < len(cmds1) or cmd.tag == "enter":
                continue
            if rng.random() < 0.4:
                t = rng.randrange(nthreads)
                prints[k] = [(t, "<%d:%d:%s>" % (t, serial, rng.choice(["late", "日本", "two\nlines"])) + ("\n" if rng.random() < 0.3 else ""))]
                serial += 1
        if not prints:
            prints[len(cmds) - 2] = [(0, "<0:0:late>")]
        c = script_case(cmds, mode=mode, chunks=chunks, cols=rng.choice([80, 40]), prompt="> ",
                        timeout=0 if mode == "vi" else rng.choice(["none", 0]), reads=2)
        c.meta["printers"] = nthreads
        c.meta["printers_late"] = 1
        c.meta["prints"] = prints
        cases.append(c)
    # messages handed over when NO read is in progress (after the last read has returned): written directly, at once;
    # bracketed paste on and off
    for _ in range(n // 6):
        mode = rng.choice(["emacs", "vi"])
        nthreads = rng.choice([1, 2])
        cmds = gen_c19(rng, mode)[:rng.randint(1, 5)] + [Cmd(["F12"], "noop"), Cmd(["Enter"], "enter")]
        chunks = [b"".join(p_tty.key_bytes(k) for k in cmd.keys) for cmd in cmds]
        prints, serial = {}, 0
        lst = []
        for _ in range(rng.choice([1, 2, 3])):
            t = rng.randrange(nthreads)
            lst.append((t, "<%d:%d:%s>" % (t, serial, rng.choice(["after", "日本", "two\nlines"])) + ("\n" if rng.random() < 0.5 else "")))
            serial += 1
        prints[len(cmds) - 1] = lst
        if rng.random() < 0.4 and len(cmds) > 3:
            prints[rng.randrange(0, len(cmds) - 2)] = [(0, "<0:%d:during>" % serial)]
        c = script_case(cmds, mode=mode, chunks=chunks, cols=rng.choice([80, 40]), prompt="> ",
                        timeout=0 if mode == "vi" else rng.choice(["none", 0]), reads=1)
        c.meta.update({"printers": nthreads, "prints": prints, "linger": 1, "paste": rng.choice([0, 1]), "no_model": 1})
        cases.append(c)
    # a message far larger than the terminal takes at once, while the terminal is not being read and resizes interrupt the
    # write that is blocked on it: every byte still arrives exactly once
    for _ in range(max(2, n // 60)):
        mode = rng.choice(["emacs", "vi"])
        cmds = gen_c19(rng, mode)[:3] + [Cmd(["F12"], "noop"), Cmd(["Enter"], "enter")]
        cmds = [c for c in cmds if c.keys != ["C-z"]]
        chunks = [b"".join(p_tty.key_bytes(k) for k in cmd.keys) for cmd in cmds]
        big = "<0:0:big>" + "".join("[%05d]" % i for i in range(rng.choice([4000, 6000]))) + "\n"
        c = script_case(cmds, mode=mode, chunks=chunks, cols=80, prompt="> ", timeout=0 if mode == "vi" else "none", reads=1)
        k = max(0, len(cmds) - 3)
        c.meta.update({"printers": 1, "prints": {}, "no_model": 1, "sync_keys": 1,
                       "bursts": {k: [(0, big)]}, "blocked_resizes": {k: [70, 60, 50, 80]}})
        cases.append(c)
    # a message handed over at the very moment keys arrive, in an application whose key handling takes a few milliseconds: the
    # terminal and the printer's wake-up are then ready for ONE wait -- the message is still shown by the time the read waits with
    # nothing pending, and so is every later one
    for i in range(max(6, n // 25)):
        mode = ["emacs", "vi"][i % 2]
        cmds = gen_c19(rng, mode)[:4] + [Cmd(["F12"], "noop"), Cmd(["Enter"], "enter")]
        cmds = [c for c in cmds if c.keys != ["C-z"]]
        chunks = [b"".join(p_tty.key_bytes(k) for k in cmd.keys) for cmd in cmds]
        k0 = rng.randrange(0, max(1, len(cmds) - 2))
        bursts = {k0: [(0, "<0:0:with-keys>"), (0, "<0:1:after>")]}
        if len(cmds) > 3 and i % 2:
            bursts[len(cmds) - 2] = [(0, "<0:2:last>")]
        c = script_case(cmds, mode=mode, chunks=chunks, cols=80, prompt="> ", timeout=0 if mode == "vi" else "none", reads=2)
        c.meta.update({"printers": 1, "prints": {}, "bursts": bursts, "burst_keys": {k0: b"xy" if i % 3 else b"x"},
                       "key_delay_ms": [40, 15, 80, 4][i % 4], "no_model": 1})   # (the longer pauses: for a loaded machine)
        cases.append(c)
    # a thread that prints without pause while many short reads start and end: every message still exactly once, whether it
    # was written directly (no read in progress), handed to the reading thread, or caught between the two
    for i in range(48 if tier == "thorough" else 24):
        mode = ["emacs", "vi"][i % 2]
        nreads = 250
        cmds = [Cmd(["F12"], "noop"), Cmd(["Enter"], "enter")]
        chunks = [b"".join(p_tty.key_bytes(k) for k in cmd.keys) for cmd in cmds]
        c = script_case(cmds, mode=mode, chunks=chunks, cols=80, prompt="> ", timeout=0 if mode == "vi" else "none", reads=nreads + 1)
        c.meta.update({"printers": 1, "prints": {}, "no_model": 1, "between_us": [150, 300, 1500, 100, 300, 3000][i % 6],
                       "flood": {"k": 0, "msgs": [(0, "<0:%d:f>\n" % j) for j in range(2 * nreads)], "enters": nreads}})
        cases.append(c)
    # bursts: several threads are told to print at once, without waiting for one another (the editor may find
    # more than one wake-up pending); which message comes first is not determined, the oracle does not care
    for _ in range(n // 3):
        mode = rng.choice(["emacs", "vi"])
        nthreads = rng.choice([2, 3])
        cmds = gen_c19(rng, mode) + [Cmd(["F12"], "noop"), Cmd(["Enter"], "enter")]
        chunks = [b"".join(p_tty.key_bytes(k) for k in cmd.keys) for cmd in cmds]
        bursts, serial = {}, 0
        for k, cmd in enumerate(cmds):
            if cmd.tag != "enter" and rng.random() < 0.35:
                lst = []
                for _ in range(rng.choice([2, 3, 4, 6])):
                    t = rng.randrange(nthreads)
                    lst.append((t, "<%d:%d:%s>" % (t, serial, rng.choice(["burst", "日本", "x" * 30]))))
                    serial += 1
                bursts[k] = lst
        c = script_case(cmds, mode=mode, chunks=chunks, cols=rng.choice([80, 40]), prompt="> ",
                        timeout=0 if mode == "vi" else rng.choice(["none", 0]), reads=2)
        c.meta["printers"] = nthreads
        c.meta["prints"] = {}
        c.meta["bursts"] = bursts
        cases.append(c)
    return cases


def eval_c19(res, cases_out, stream, width):
    stats = {"messages": 0, "scripts_with_messages": 0, "reads": 0, "multi_row_messages": 0}
    for (c, impl, model, raw) in cases_out:
        t = Trace(c, impl)
        prints = dict(c.meta["prints"])
        for k, lst in (c.meta.get("bursts") or {}).items():
            prints[k] = list(prints.get(k, [])) + lst
        if c.meta.get("flood"):
            prints[c.meta["flood"]["k"]] = list(prints.get(c.meta["flood"]["k"], [])) + list(c.meta["flood"]["msgs"])
            stats["flood_messages"] = stats.get("flood_messages", 0) + len(c.meta["flood"]["msgs"])
        allmsgs = [m for k in sorted(prints) for m in prints[k]]
        if allmsgs:
            stats["scripts_with_messages"] += 1
        stats["messages"] += len(allmsgs)
        acks = [l.split() for l in raw["obs"] if l.startswith("P ")]
        line = c.model_line(c.chunks)
        if len(acks) != len(allmsgs) or any(a[3] != "ok" for a in acks):
            res.oracle_failures.append({"stream": stream, "case": line, "keys": c.keys, "why": "print: %d messages handed over, %d reported done (%s)" % (
                len(allmsgs), len(acks), [a[3] for a in acks])})
            continue
        # everything written to the terminal, interpreted; reads are separated by ESC[?2004l CR LF
        try:
            text = [ord(ch) for ch in raw["out"].decode("utf-8")]
        except UnicodeDecodeError:
            res.oracle_failures.append({"stream": stream, "case": line, "keys": c.keys, "why": "output is not UTF-8"})
            continue
        scr = vt.Screen(c.cols, width)
        scr.feed(text)
        rows = scr.text_rows(min(scr.rows) if scr.rows else 0)
        whole = "\n".join(rows)
        joined = scr.raw_text()
        if c.meta.get("flood"):
            # (messages racing with the start and end of reads: counted in the bytes written, whatever a later repaint does to the row)
            whole = joined = raw["out"].decode("utf-8")
        ok = True
        for (th, m) in allmsgs:
            tag = m.split(":")[0] + ":" + m.split(":")[1] + ":"
            cnt = whole.count(tag)
            if cnt != 1:
                res.oracle_failures.append({"stream": stream, "case": line, "keys": c.keys,
                                            "why": "message %r appears %d times on the terminal (screen: %r)" % (m, cnt, rows[-8:])})
                ok = False
                break
            # whole: each of its lines is on the screen, wrapped at the width
            for part in m.rstrip("\n").split("\n"):
                flat = part
                if flat not in joined:
                    res.oracle_failures.append({"stream": stream, "case": line, "keys": c.keys,
                                                "why": "message %r is not whole on the terminal (screen: %r)" % (m, rows[-8:])})
                    ok = False
                    break
            if not ok:
                break
            if "\n" in m.rstrip("\n") or len(m) > c.cols:
                stats["multi_row_messages"] += 1
        if not ok:
            continue
        # per-thread order
        # (the order clause speaks of messages sent during ONE wait: in the flood block a message queued as a read ends is
        # shown by the next read, after messages written directly in between -- not judged there)
        for th in range(c.meta["printers"] if not c.meta.get("flood") else 0):
            idx = [whole.index(m.split(":")[0] + ":" + m.split(":")[1] + ":") for (t2, m) in allmsgs if t2 == th]
            if idx != sorted(idx):
                res.oracle_failures.append({"stream": stream, "case": line, "keys": c.keys,
                                            "why": "messages of thread %d appear out of order" % th})
                ok = False
        # the edited text is unaffected: what each read returned is what the keys alone produce (the model without messages
        # is not needed: Enter returns the text observed before it)
        if t.ok:
            for (cmd, (text0, pos0), after, ob) in t.steps:
                if cmd.tag == "enter":
                    stats["reads"] += 1
                    if after != ("line", text0):
                        res.oracle_failures.append({"stream": stream, "case": line, "keys": c.keys,
                                                    "why": "the read did not return the edited text: %s vs %s" % (after, enc(text0))})
            # after the last message of a read the prompt and line are redrawn below it: the last rows of the screen
            last = [s for s in t.steps if s[0].tag == "enter"]
        res.nontrivial.add(line)
    return stats


def c19_pair_cases(tier, seed):
    """a message arriving INSIDE an incremental search or a completion (the sub-loops read keys without looking at the
    message pipe: the message waits, and is shown when the main loop waits again) -- pairs of the same script with and
    without the message"""
    rng = random.Random(seed * 2131 + 47)
    n = 300 if tier == "thorough" else 30
    pairs = []
    for _ in range(n):
        hist = ["echo hello", "ls -l", "cargo test", "echo bye"]
        cands = ["foo", "foobar", "food"]
        cmds = [Cmd([ch], "ins", c=ord(ch), n=1) for ch in p_tty.rand_text(rng, 0, 3, ["a", "b", " "])]
        inside = []
        for _ in range(rng.randint(1, 2)):
            if rng.random() < 0.6:
                cmds.append(Cmd(["C-r"], "s_start"))
                a = len(cmds)
                for ch in rng.choice(["ec", "e", "ls", "ch", "o h"]):
                    cmds.append(Cmd([ch], "s_char", c=ord(ch)))
                if rng.random() < 0.4:
                    cmds.append(Cmd(["C-r"], "s_again_r"))
                inside.append((a, len(cmds) - 1))
                cmds.append(Cmd([rng.choice(["Left", "C-e", "C-a"])], "s_exit"))
            else:
                cmds += [Cmd([" "], "ins", c=32, n=1), Cmd(["f"], "ins", c=102, n=1), Cmd(["Tab"], "c_tab")]
                a = len(cmds) - 1
                for _ in range(rng.randint(0, 2)):
                    cmds.append(Cmd(["Tab"], "c_tab"))
                inside.append((a, len(cmds) - 1))
                cmds.append(Cmd([rng.choice(["x", "Left"])], "accept"))
            for ch in p_tty.rand_text(rng, 0, 2, ["z", "y"]):
                cmds.append(Cmd([ch], "ins", c=ord(ch), n=1))
        cmds += [Cmd(["F12"], "noop"), Cmd(["Enter"], "enter")]
        chunks = [b"".join(p_tty.key_bytes(k) for k in cmd.keys) for cmd in cmds]
        # at most ONE message per episode (the channel holds one; a second print would wait for the editor)
        prints, serial = {}, 0
        for (a, b) in inside:
            k = rng.randint(a, b)
            prints[k] = [(0, "<0:%d:%s>" % (serial, rng.choice(["msg", "inside", "\u65e5\u672c"])) + ("\n" if rng.random() < 0.3 else ""))]
            serial += 1
        kw = dict(mode="emacs", chunks=chunks, cols=80, prompt="> ", timeout=rng.choice(["none", 0]), reads=1, history=hist,
                  cands=cands, completion="circular")
        c1 = script_case(cmds, **kw)
        c2 = script_case(cmds, **kw)
        for c in (c1, c2):
            c.meta["printers"] = 1
            c.meta["prints"] = {}
            # one key per chunk, every key observed: the driver waits for the observations (a message read later from the
            # pipe would otherwise count as a read of terminal input in its quiescence test)
            c.meta["sync_keys"] = 1
        c1.meta["prints"] = prints      # (model: a raw read steps over the message, which stays in the stream for the main loop)
        pairs.append((c1, c2))
    # ... and inside the question of list completion (`Display all N possibilities? (y or n)`, more candidates than the prompt
    # limit): the message waits until the question is answered
    for i in range(max(4, n // 8)):
        cmds = [Cmd([ch], "ins", c=ord(ch), n=1) for ch in ["", "a ", "b"][i % 3]] + [Cmd(["f"], "ins", c=102, n=1)]
        cmds += [Cmd(["Tab"], "c_tab"), Cmd(["Tab"], "c_tab")]
        at = len(cmds) - 1
        if i % 2:
            cmds.append(Cmd(["x"], "c_ignored"))
        cmds += [Cmd([["n", "y", "N"][i % 3]], "c_answer")]
        for ch in p_tty.rand_text(rng, 0, 2, ["z", "y"]):
            cmds.append(Cmd([ch], "ins", c=ord(ch), n=1))
        cmds += [Cmd(["F12"], "noop"), Cmd(["Enter"], "enter")]
        chunks = [b"".join(p_tty.key_bytes(k) for k in cmd.keys) for cmd in cmds]
        kw = dict(mode=["emacs", "vi"][(i // 2) % 2], chunks=chunks, cols=80, prompt="> ", timeout=0, reads=1,
                  cands=["foo", "foobar", "food"], completion="list")
        c1 = script_case(cmds, **kw)
        c2 = script_case(cmds, **kw)
        for c in (c1, c2):
            c.meta.update({"printers": 1, "prints": {}, "sync_keys": 1, "prompt_limit": 2})
        c1.meta["prints"] = {rng.randint(at, at + i % 2): [(0, "<0:0:asked>")]}
        pairs.append((c1, c2))
    return pairs


def cursor_rows(c, raw, width):
    """after every chunk: (text of the row the cursor is on, cursor column) as an emulator sees it"""
    try:
        data = raw["out"].decode("utf-8")
    except UnicodeDecodeError:
        return None
    scr = vt.Screen(c.cols, width)
    out, fed = [], 0
    for m in raw["marks"]:
        scr.feed([ord(ch) for ch in data[:0]])      # (no-op: keeps the interface in one place)
        piece = raw["out"][fed:m]
        try:
            scr.feed([ord(ch) for ch in piece.decode("utf-8")])
        except UnicodeDecodeError:
            return None
        fed = m
        r, col = scr.cursor()
        rows = scr.text_rows(r)
        out.append((rows[0] if rows else "", col))
    return out


def eval_c19_pairs(res, pairs, outs, width):
    stats = {"pairs": 0, "messages_inside_a_sub_loop": 0}
    for (c1, c2), (o1, o2) in zip(pairs, zip(outs[0::2], outs[1::2])):
        (_, impl1, _, raw1), (_, impl2, _, raw2) = o1, o2
        stats["pairs"] += 1
        stats["messages_inside_a_sub_loop"] += len(c1.meta["prints"])
        line = c1.model_line(c1.chunks)
        r1, r2 = cursor_rows(c1, raw1, width), cursor_rows(c2, raw2, width)
        if r1 is None or r2 is None:
            res.oracle_failures.append({"stream": "printer-subloop", "case": line, "keys": c1.keys, "why": "output is not UTF-8"})
            continue
        rl1 = [l for l in raw1["obs"] if l.startswith("R ")]
        rl2 = [l for l in raw2["obs"] if l.startswith("R ")]
        if rl1 != rl2:
            res.oracle_failures.append({"stream": "printer-subloop", "case": line, "keys": c1.keys, "prints": {str(k): v for k, v in c1.meta["prints"].items()},
                                        "why": "a message arriving inside a search / completion changed what the read returns: %s vs %s" % (rl1, rl2)})
            continue
        for k, (a, b) in enumerate(zip(r1, r2)):
            if a != b:
                res.oracle_failures.append({"stream": "printer-subloop", "case": line, "keys": c1.keys,
                                            "prints": {str(k2): v for k2, v in c1.meta["prints"].items()},
                                            "why": ("after chunk %d the row with the cursor shows %r (column %d); without the message handed over "
                                                    "at chunks %s it shows %r (column %d): a message must not disturb what the prompt row shows "
                                                    "(inside a search or completion it waits until the main loop reads again)"
                                                    % (k - 1, a[0], a[1], sorted(c1.meta["prints"]), b[0], b[1]))})
                break
        res.nontrivial.add(line)
    return stats


def c19_corr(res, exe, driver, tier, seed, tmp):
    cases = c19_cases(tier, seed)
    out = run_tty_cases(res, exe, driver, cases, tmp, "printer")
    width = vt.Widths(ud_tables())
    stats = eval_c19(res, out, "printer", width)
    # the edited text is unaffected: the same script WITHOUT its messages goes through the same states and returns the same lines
    import copy
    withm = [(c, impl) for (c, impl, model, raw) in out if c.meta.get("prints") and not c.meta.get("bursts") and not c.meta.get("no_model")
             and not c.meta.get("events")]
    twins = []
    for c, impl in withm:
        t = copy.copy(c)
        t.meta = dict(c.meta, prints={})
        twins.append(t)
    tout = run_tty_cases(res, exe, None, twins, tmp, "printer-twin")
    res.evaluations -= len(twins)
    for (c, impl), (t, timpl, _, _) in zip(withm, tout):
        a, b = p_tty.strip_w(impl), p_tty.strip_w(timpl)
        if a != b:
            res.oracle_failures.append({"stream": "printer", "case": c.model_line(c.chunks), "keys": c.keys,
                                        "prints": {str(k): v for k, v in c.meta["prints"].items()},
                                        "why": "the messages changed what the keys do: with them %s, without them %s" % (" ## ".join(a)[:600], " ## ".join(b)[:600])})
    stats["twins_without_messages"] = len(twins)
    pairs = c19_pair_cases(tier, seed)
    flat = [c for pr in pairs for c in pr]
    pout = run_tty_cases(res, exe, driver, flat, tmp, "printer-subloop")
    stats["sub_loops"] = eval_c19_pairs(res, pairs, pout, width)
    stats2 = eval_c19(res, [o for o in pout[0::2]], "printer-subloop", width)
    stats["sub_loops"]["messages_shown_once"] = stats2["messages"]
    res.distribution.update({"oracle": stats, "scripts": len(cases)})
    res.rule = ("printer: 1-3 printer threads in the child, each with its own ExternalPrinter, print messages (short, multi-byte, "
                "longer than the window, with embedded and trailing line breaks) on command from the driver at quiescent points of "
                "emacs/vi scripts -- i.e. while the read waits in select() with no key pending; two reads per script. (i) every byte "
                "written is compared with the model (Editor.external_print + drain_prints: the message handling of the main loop). "
                "(ii) an independent emulator interprets everything written: every message must be on the terminal exactly once and "
                "whole, messages of one thread in the order sent, each print call must have returned Ok, and each read must return "
                "exactly the text that was being edited; every script with messages is run again WITHOUT them and must go through the same "
                "states (text, cursor, mode before each key) and return the same lines. printer-subloop: pairs of one script with and without a message handed "
                "over INSIDE an incremental search or a circular completion (also compared with the model, whose raw reads step "
                "over a message and leave it in the stream for the main loop): after every chunk the row the cursor is on shows the same text and column in both "
                "runs, both reads return the same line, and the message is on the terminal exactly once.")
    for c, impl, model, raw in out[:3]:
        res.samples.append({"keys": c.keys, "prints": {str(k): v for k, v in c.meta["prints"].items()}, "impl": " ## ".join(impl)[:300]})
