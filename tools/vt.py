"""A VT100-subset terminal emulator written for the C02 oracle (independent of rustyline's layout
arithmetic): unbounded grid, cursor, deferred wrap, per-character width (0 attaches to the previous
cell, 2 wraps early when one column is left), CR LF BS BEL TAB, CSI A/B/C/D (clamped), CSI K, CSI J,
CSI H, SGR and private modes ignored. Rows are relative to the ANCHOR: the row on which the read began."""


class Widths:
    def __init__(self, tabs):
        self.w0, self.w2 = tabs["width0"], tabs["width2"]

    def __call__(self, c):
        for a, b in self.w0:
            if a <= c <= b:
                return 0
        for a, b in self.w2:
            if a <= c <= b:
                return 2
        return 1


class Screen:
    def __init__(self, cols, width, tab=8):
        self.W, self.width = cols, width
        self.tab = tab            # tab stops every `tab` columns (Config::tab_stop tells rustyline what the terminal has)
        self.rows = {}            # row -> list of cells (None | (cp, extras) | "cont")
        self.r, self.c = 0, 0
        self.pending = False      # deferred wrap: the cursor is shown on the last column
        self.flags = []           # things a real, finite terminal would do differently
        self.lowest = 0
        self.lf_while_pending = False   # a line break arrived while the cursor sat in the last column (deferred wrap)
        self.tab_clamped = False

    def _row(self, r):
        if r not in self.rows:
            self.rows[r] = [None] * self.W
        return self.rows[r]

    def put(self, cp):
        w = self.width(cp)
        if w == 0:
            # combining mark: joins the cell before the cursor
            r, c = self.r, self.c - 1
            if c >= 0:
                cell = self._row(r)[c]
                if cell == "cont" and c > 0:
                    c -= 1
                    cell = self._row(r)[c]
                if isinstance(cell, tuple):
                    self._row(r)[c] = (cell[0], cell[1] + (cp,))
            return
        if self.pending or (w == 2 and self.c == self.W - 1) or self.c + w > self.W:
            if w == 2 and not self.pending and self.c == self.W - 1:
                self._row(self.r)[self.c] = None
            self.r += 1
            self.c = 0
            self.pending = False
        row = self._row(self.r)
        row[self.c] = (cp, ())
        if w == 2 and self.c + 1 < self.W:
            row[self.c + 1] = "cont"
        self.c += w
        if self.c >= self.W:
            self.c = self.W - 1
            self.pending = True
        self.lowest = max(self.lowest, self.r)

    def feed(self, data):
        """data: list of code points (already decoded)"""
        i, n = 0, len(data)
        while i < n:
            ch = data[i]
            i += 1
            if ch == 0x1b:
                if i < n and data[i] == 0x5b:
                    j = i + 1
                    while j < n and not (0x40 <= data[j] <= 0x7e):
                        j += 1
                    params = "".join(chr(x) for x in data[i + 1:j])
                    final = chr(data[j]) if j < n else ""
                    i = j + 1
                    self.csi(params, final)
                else:
                    i += 1       # ESC x
            elif ch == 0x0d:
                if self.pending:
                    self.lf_while_pending = True
                self.c, self.pending = 0, False
            elif ch == 0x0a:
                self.r += 1
                self.pending = False
                self.lowest = max(self.lowest, self.r)
            elif ch == 0x08:
                self.c = max(0, self.c - 1)
                self.pending = False
            elif ch == 0x07:
                pass
            elif ch == 0x09:
                if (self.c // self.tab + 1) * self.tab > self.W - 1:
                    self.tab_clamped = True       # a tab that would cross the right margin stops in the last column
                self.c = min(self.W - 1, (self.c // self.tab + 1) * self.tab)
            elif ch < 0x20:
                pass
            else:
                self.put(ch)

    def csi(self, params, final):
        if params.startswith("?") or final in ("m", "h", "l", ""):
            return
        try:
            n = int(params.split(";")[0]) if params else 1
        except ValueError:
            n = 1
        n = max(1, n)
        if final == "A":
            self.r -= n
            self.pending = False
            if self.r < 0:
                self.flags.append("cursor moved above the row where the read began")
        elif final == "B":
            if self.r + n > self.lowest:
                self.flags.append("cursor-down below the lowest row written (a finite terminal would clamp)")
            self.r += n
            self.pending = False
        elif final == "C":
            self.c = min(self.W - 1, self.c + n)
            self.pending = False
        elif final == "D":
            self.c = max(0, self.c - n)
            self.pending = False
        elif final == "K":
            row = self._row(self.r)
            for k in range(self.c, self.W):
                row[k] = None
        elif final == "J":
            self.csi("", "K")
            for r in list(self.rows):
                if r > self.r:
                    del self.rows[r]
        elif final == "H":
            # home of the visible screen: everything shown so far is abandoned on purpose (C-l)
            self.rows = {}
            self.r, self.c, self.pending, self.lowest = 0, 0, False, 0

    def text_rows(self, frm=0):
        out = []
        top = max(self.rows) if self.rows else -1
        for r in range(frm, top + 1):
            row = self.rows.get(r, [])
            s = []
            for cell in row:
                if cell is None:
                    s.append(" ")
                elif cell == "cont":
                    continue
                else:
                    s.append(chr(cell[0]) + "".join(chr(x) for x in cell[1]))
            out.append("".join(s).rstrip())
        while out and out[-1] == "":
            out.pop()
        return out

    def raw_text(self):
        """all rows, top to bottom, each padded to the full width (so that text wrapped at the margin is contiguous)"""
        if not self.rows:
            return ""
        out = []
        for r in range(min(self.rows), max(self.rows) + 1):
            row = self.rows.get(r, [None] * self.W)
            s = []
            for cell in row:
                if cell is None:
                    s.append(" ")
                elif cell == "cont":
                    continue
                else:
                    s.append(chr(cell[0]) + "".join(chr(x) for x in cell[1]))
            out.append("".join(s))
        return "".join(out)

    def cursor(self):
        """the cell the cursor is shown on"""
        return (self.r, self.c)


def layout(cols, width, text_before, text_after, tail=(), tab=8):
    """what a terminal shows after printing text_before + text_after + tail on a blank screen from the anchor, and the
    cell of the logical cursor: where the character after the cursor is displayed, or -- at the end -- where the next
    character would go"""
    s = Screen(cols, width, tab)
    s.feed(expand(text_before))
    if s.pending:
        cur = (s.r + 1, 0)
    else:
        cur = (s.r, s.c)
    rest = list(text_after) + list(tail)
    if rest:
        # the next visible character may not fit on this row: its cell is where it is actually drawn
        k = 0
        while k < len(rest) and width(rest[k]) == 0 and rest[k] != 0x0a:
            k += 1
        if k < len(rest) and rest[k] not in (0x0a, 0x09):
            t = Screen(cols, width, tab)
            t.feed(expand(text_before))
            t.put(rest[k])
            w = width(rest[k])
            c0 = t.c - w + (1 if t.pending else 0) if not t.pending else cols - w
            cur_next = (t.r, c0)
        else:
            cur_next = cur
    else:
        cur_next = cur
    s.feed(expand(rest))
    whole = list(text_before) + rest
    s.known_class = None
    if s.tab_clamped:
        s.known_class = "K_tab_margin"          # a tab whose next stop lies beyond the right margin
    elif s.lf_while_pending:
        s.known_class = "K_fullrow_lf"          # a row filled exactly to the last column, then a line break
    elif whole and whole[-1] != 0x0a and s.c == 0 and not s.pending and s.r > 0:
        s.known_class = "K_zw_after_lf"         # the last line holds only zero-width characters
    return s.text_rows(), cur, cur_next, s


def expand(text):
    """LF in the text is displayed as CR LF (the line discipline does that to what rustyline writes)"""
    out = []
    for c in text:
        if c == 0x0a:
            out.append(0x0d)
        out.append(c)
    return out
