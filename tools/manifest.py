#!/usr/bin/env python3
"""Regenerate MANIFEST.json from the table below (kept valid at all times)."""
import json
import os

HERE = os.path.dirname(os.path.dirname(os.path.abspath(__file__)))
COMMON_NOTE = ("Trusted: Coq 8.16.1 kernel, extraction (ExtrOcamlBasic only), ocaml/driver.ml, harness/ Rust glue, "
               "tools/*.py generators/oracles/translators. The theorems are about the hand-written model; the "
               "correspondence stream ties it to /repo on the generated inputs only. ")

TTY_NOTE = COMMON_NOTE + ("Interactive properties drive the real Unix back end through a pseudo-terminal (tools/ptydrive.py): the "
                          "delivery schedule (chunks, sent at observed quiescence) is part of the input; observation is the public "
                          "Event::Any handler. ")

CLAIMED = {
    "C01": dict(
        text="Theorems over the model of the whole interactive read (decoder, keymap, execute): the README binding tables hold row "
             "by row for every editor state (99 rows), numeric arguments are handed to the command and a negative one runs the "
             "opposite command (53 rows), every standard byte encoding of a documented key decodes to it consuming exactly its "
             "bytes (73 encodings, any later input, either timeout setting), a typed character is inserted exactly once at the "
             "cursor for every character/text/cursor/configuration, and no Move command changes the text for every movement and "
             "count. PARTIAL: the composition over arbitrary key sequences is the model function read_line itself, tied to /repo by "
             "the keys stream (text, cursor, mode, argument before every key, result; the bytes written are C02's) and judged on the "
             "implementation by a spec oracle for the commands with a crisp documented meaning; vi `.`, transpose, case change, "
             "indent have no independent statement.",
        note=TTY_NOTE + "Known finding K_word_count (C04) limits the count convention for word commands.",
        technique="Coq proof: finite table sweeps by kernel computation for arbitrary surrounding state; structural proofs over the editor monad (keeps_buf, insert spec); extracted-model differential check through a pty + documented-meaning oracle"),
    "C05": dict(
        text="Theorems over the model of undo.rs composed with the line buffer and the editor: the undo stack is at every moment "
             "a valid edit script from the empty line to the current text -- preserved by every change notification (any "
             "line-buffer operation, C03 replay) and by EVERY editor command for every configuration and state, hence through "
             "any command sequence of a read; Undo never panics for any count; each Undo lands on a text of that script; one "
             "Undo removes exactly one recorded change or exactly one Begin..End group; a count beyond the stack yields the "
             "empty line; begin + any notifications + truncate(mark) restores the changeset exactly (stack and group depth), "
             "which is what aborting a search or completion does; THE SUB-LOOPS (Emacs mode): a whole incremental-search session "
             "(any keys typed inside it, any number of hits) or circular-completion session (any contract-keeping completer) that "
             "ends without handing a command back -- an abort, or nothing to search / complete -- leaves the line, its cursor AND "
             "the undo stack exactly as they were before it (C05_search_abort_is_noop, C05_completion_abort_is_noop). PARTIAL: in "
             "vi mode that statement is FALSE of the code (known finding K9); list-mode completion, accepted sessions and the link "
             "from script texts to texts actually displayed are decided by the correspondence and by the oracle (earlier-observed "
             "texts, unit after word-sized edits, count 99 empties, paired scripts with/without an aborted episode).",
        note=TTY_NOTE,
        technique="Coq proof: invariant by induction over notifications / commands (compositional 'preserves' calculus over the editor monad); induction over the undo stack; extracted-model differential check through a pty + metamorphic oracle"),
    "C06": dict(
        text="Theorems over the model of kill_ring.rs and the line buffer's yank / yank_pop: a kill that starts a run fills a fresh "
             "slot with exactly the removed text and the next yank returns it; consecutive kills accumulate (forward appended, "
             "backward prepended) so that for ANY mix of forward and backward kills around the cursor the slot holds the removed "
             "pieces in their original left-to-right order and re-inserting it restores the text; notifications of single-character "
             "deletes never reach the ring and those commands end the run; yank inserts the text at the cursor; yank-pop replaces "
             "exactly the bytes the yank inserted, by the previous slot, cyclically, and only directly after a yank or yank-pop; a "
             "kill that starts a run goes into the slot after the MOST RECENT kill wherever yank-pop has rotated to and touches "
             "no other slot (K1 repaired). CHRONOLOGY (refinement): read from the most recent kill backwards the ring is a list with "
             "a yanking pointer, and for EVERY sequence of ring operations (kills in either direction, yank, yank-pop, reset, "
             "counted yank, start / stop of a kill) nothing panics and every answer is the list machine's: a new kill is cons "
             "(the oldest of [cap] dropped), a kill after a kill extends the head, yank is the entry under the pointer, yank-pop "
             "is pointer + 1 modulo the number of kills held, so j yank-pops cycle through all kills held and round again. "
             "Which command sequences the editor turns into which ring operations (what resets, what counts as one kill run, "
             "the byte ranges a counted yank + yank-pop replaces: K2 repaired) is the model's execute, tied to the code by the "
             "kill stream and judged by the reference-ring oracle.",
        note=TTY_NOTE,
        technique="Coq proof: induction over the kill run (inductive relation for pieces around the cursor), case analysis of the ring arithmetic; refinement of (slots, index, newest) to (list, pointer) with modular index arithmetic, lifted to operation sequences by induction; extracted-model differential check through a pty + reference-ring oracle"),
    "C07": dict(
        text="Theorems over the editor model: the stored history is read-only -- for EVERY input, mode, helper and binding the main "
             "loop (byte reader, keymaps, digit arguments, completion and search sub-loops, every command) returns with the "
             "history list unchanged (induction over the loop's fuel through all of the keymap code); moving up shows the next "
             "older entry exactly as stored with the cursor at its end and captures the line being typed when and only when "
             "recall starts from it; moving down shows the next newer entry and, past the newest, restores the captured text "
             "and cursor exactly; both directions stop at the ends without changing anything; first/last-entry commands land "
             "where enough ups/downs would; WHOLE WALKS (C07_recall_walk): from the line being typed, any sequence of previous / "
             "next steps ends where an index walked over the stored list ends -- on an entry exactly that entry with the cursor "
             "at its end, back past the newest the typed line and its cursor restored exactly -- with the list unchanged and no "
             "panic on the way; MULTI-LINE TEXT: with a line break before (after) the cursor, Up (Down) only moves the cursor to an "
             "earlier (later) line -- text, history, position in it, saved line, undo stack and kill ring untouched -- and on the "
             "top (bottom) line it is exactly the history step; EDITS: no command other than the eight history-navigation commands "
             "writes the stored list, the position in it or the saved line, so after any edit of a recalled entry Up / Down show "
             "the neighbouring stored entries exactly and Down past the newest restores the typed line. The composition of these "
             "steps over whole key sequences with edits in between is the model's main loop, tied to the code by the recall "
             "stream and judged by the reference-walk oracle.",
        note=TTY_NOTE + "Theorems and model correspondence: default history back end; the SQLite back end is walked by the same editor in the sqlwalk stream (reference-walk oracle).",
        technique="Coq proof: 'keeps the history field' calculus over the editor monad with fuel induction for every loop; symbolic execution of the recall steps; induction over the index walk; loop invariants of the line-up / line-down scans; a second 'keeps' calculus for position and saved line; extracted-model differential check through a pty + reference-walk oracle"),
    "C08": dict(
        text="Theorems over the search loop of the editor model (one key, arbitrary continuation) on top of C09's search theorems: "
             "a hit is a stored entry that contains the search text at the reported offset and is the NEAREST such entry from the "
             "start index, inclusive, in the search direction; a typed character searches the extended text from the current "
             "position and on a hit the line shown is that entry with the cursor at the match, on a miss nothing moves; the "
             "search key again searches from one entry further (next nearest) and fails in place at the ends; Backspace shortens "
             "the text without searching; Ctrl-G restores exactly the line and cursor from before the search; any other command "
             "leaves the shown entry as the line, untouched, and is handed to the main loop. PARTIAL: whole search sessions "
             "(composition, the prompt, undo afterwards) by the correspondence and the reference-search oracle.",
        note=TTY_NOTE + "Theorems and model correspondence: default history back end; the SQLite back end is walked by the same editor in the sqlwalk stream (reference-walk oracle).",
        technique="Coq proof: symbolic execution of the search branch per key + C09 nearest-match theorems; extracted-model differential check through a pty + reference-search oracle"),
    "C14": dict(
        text="Theorems over the completion loop of the editor model, for every completer answer (start offset, candidates), text "
             "and state: round i of circular completion rewrites exactly the span between the reported start and the cursor with "
             "candidate i -- text before and after intact, cursor after the candidate -- and round n shows the original text and "
             "cursor; Tab moves to (i+1) mod (n+1), Shift-Tab back (wrapping); Escape / Ctrl-G restores the original text and "
             "cursor exactly and cuts the undo stack back to its mark (with C05: the changeset from before); any other key keeps "
             "the shown candidate, closes the undo group and is executed by the main loop; one Undo after an accepted completion "
             "pops exactly that group and yields the pre-completion text (a valid script determines its text); in list mode the "
             "inserted text is a prefix of every candidate and the longest such (and the byte-wise computation of completion.rs "
             "equals it: C15), it replaces exactly the span -- text before and after intact, cursor after it -- when it is "
             "longer than the span or there is one candidate, and otherwise that step changes nothing at all. PARTIAL: the "
             "composition over whole completion sessions (the loops are the model's, each key with an arbitrary continuation) "
             "and the candidate listing (columns, paging question) by the correspondence and the recomputing oracle.",
        note=TTY_NOTE,
        technique="Coq proof: symbolic execution of the completion branch per key; induction for LCP and for uniqueness of the script's text; extracted-model differential check through a pty + recomputing oracle"),
    "C17": dict(
        text="Theorems over the editor model, for EVERY character stream (undecodable bytes included), chunking, mode, helper, "
             "binding set and history: the byte decoder is total -- a key with at least one character consumed, or end of input "
             "/ undecodable byte, never a panic or a loop; reading a command consumes at least one character and executing one "
             "reads nothing, so the main loop with all its sub-loops (digit arguments, key sequences, paste, completion, pager, "
             "incremental search) terminates on its own: with more fuel than input it never runs dry, hence a read never ends "
             "in OutOfFuel (the model-level statement of 'no input can wedge a read'). NO PANIC: J = cursor on a character "
             "boundary, undo stack a valid edit script, kill ring consistent, saved line valid, buffer growable. "
             "(a) C17_execute_never_panics: from any state with J, executing ANY command (every Movement, count, word "
             "definition; kills, yanks, transposes, case changes, indent, history moves and searches, undo, accept) never reaches "
             "a Panic of the model and re-establishes J, hence any sequence of commands (C17_commands_never_panic); "
             "(b) C17_next_cmd_never_panics: reading the next command (decoder, Emacs / vi keymaps, digit arguments, bindings, "
             "repeat) never panics, keeps J and touches neither line nor kill ring; (c) every LineBuffer operation is total "
             "(C03_all_total_wf); the initial state has J; (d) WHOLE READS: a read never ends in Panic for EVERY input stream, "
             "chunking, bindings, prompt, initial text and kill ring -- in EMACS MODE (the default) with ANY history and ANY helper "
             "whose completer keeps its contract (span start on a character boundary at or before the cursor; hinter, highlighter, "
             "validator arbitrary), the incremental-search and completion sub-loops included (C17_read_never_panics_emacs); and in "
             "either mode without a helper and with an empty history (C17_read_never_panics). PARTIAL: vi mode with a history or a "
             "helper is not a theorem -- there known finding K9 (an Alt key inside a search pops the search's undo marker) breaks "
             "the undo invariant, so J is NOT an invariant of every read; that, the select/poll path with a printer, resizes and "
             "stop/continue are decided by the junk / long streams on the real back end (catch_unwind, stall detection, a result "
             "for every read). The proof attempts found F19, F20, F21, F22 (panics, repaired) and K9.",
        note=TTY_NOTE + "Runtime behaviour (signals, unsafe, kernel) is exercised, not modelled; debug_assert! conditions of the layout are not modelled.",
        technique="Coq proof: progress calculus over the editor monad (input size non-increasing / decreasing, fuel bounded by input) with fuel induction for all nine loops; totality calculus for the decoder; invariant-preservation calculus (no Panic + J) over every command and the whole keymap, resting on the totality of every line-buffer operation; extracted-model differential check on junk input through a pty + crash/stall oracle"),
    "C16": dict(
        text="PARTIAL by construction. Theorem over a deliberately small model of readline_with and its restoring Guard (terminal "
             "settings opaque, the editing loop ANY function that writes ordinary output and ends as line / end-of-file / interrupt "
             "/ undecodable input / helper error / helper panic, the Guard's Drop running on every exit): each read leaves exactly "
             "the settings it found and bracketed paste off, and so for any number of successive reads with the application "
             "changing the settings in between. That the code is an instance of this model (Drop runs on unwinding, nothing else "
             "touches termios, a later read saves what IT finds) is NOT proved: it is checked on every run by the rawmode stream "
             "-- tcgetattr on a real pty before and after each read, all flags and control characters compared, for every exit "
             "kind, cooked and raw initial modes, settings switched between reads, paste and signals options on and off.",
        note=TTY_NOTE + "The runtime behaviour the model cannot exhibit: unwinding, tcsetattr, the line discipline.",
        technique="Coq proof over a small abstract model (induction over the reads) + tcgetattr-based oracle on a pty for every exit kind"),
    "C02": dict(
        text="PARTIAL. Theorems over the render model and a VT100-subset terminal specification (Spec/Vt.v), for text of width-1 "
             "characters (each its own cluster, no line break / tab / escape), every width W >= 1: (1) the terminal's position after "
             "each character -- deferred wrap included -- is exactly what rustyline's calc_go computes, and calculate_position "
             "(prompt size, cursor, end of layout) is the cell where the terminal draws the next character; (2) the bytes of a "
             "refresh are the standard encoding of a list of terminal operations; (3) THE DISPLAY STEP: from ANY screen about which "
             "the old layout's bookkeeping is right (cursor row, nothing below the old end row; anything may be left on the rows "
             "above), a full redraw leaves exactly prompt + line as a blank screen would show them, nothing left over, the cursor "
             "on the cell of the logical cursor, and the new bookkeeping right again -- hence through any sequence of redraws. "
             "The fast paths (single-character append, cursor-only moves), hints, wide / zero-width characters and line breaks "
             "are decided on every run by an independent emulator over every byte the implementation wrote (screen = layout on a "
             "blank screen, cursor cell, cursor after the line at return), plus byte-for-byte correspondence with the render "
             "model. Known findings K_fullrow_lf, K_zw_after_lf (recorded, classes excluded); F17 repaired.",
        note=TTY_NOTE + "Real terminals are represented by the emulator's stated assumptions.",
        technique="Coq proof: simulation between the terminal specification and calc_go by induction over the text; clear / print / reposition phases of refresh_line by induction over rows; extracted-model differential check of every byte written + independent VT emulator oracle"),
    "C19": dict(
        text="Theorems over (a) a transition-system model of the ExternalPrinter protocol (writer mutex, channel of capacity 1, "
             "wake-up pipe, one byte per wake-up) for ANY number of printer threads and EVERY interleaving: per thread, messages "
             "shown ++ message in the channel ++ messages still to print is always exactly the thread's program (nothing lost, "
             "shown twice or reordered; all shown once the thread is done), the pipe holds a byte exactly when an announced message "
             "is in the channel (no spurious wake-up), some step is always enabled while anything is left to print, and a message in "
             "the channel is shown by the editor's next step or announced by its sender's next step; (b) the editor model: showing a "
             "message leaves text, cursor, undo stack and history untouched and writes the message whole, after clearing the old "
             "rows, followed by a full redraw; over WHOLE READS, for every input, mode, helper and binding: a raw read (a character "
             "of a key sequence, of an incremental search, of a completion) leaves every pending message where it is, and the "
             "messages still pending when the read returns are a suffix of those pending when it started -- the others were "
             "taken off the front, in order, by the main loop's wait, the only place that takes one and shows it. PARTIAL: the "
             "protocol model is tied to the code by the oracle on real runs only (sampled schedules); the message handling of "
             "the editor model -- messages inside sub-loops, after the last read, with late printers included -- is compared "
             "with the implementation byte for byte.",
        note=TTY_NOTE + "Thread schedules below the protocol steps, and racing with the start/end of a read, are sampled.",
        technique="Coq proof: invariant over an inductively defined step relation (all interleavings), progress by case analysis; editor-side by the keeps-calculus; extracted-model differential check of the message redraw through a pty + exactly-once/order oracle with an independent emulator"),
    "C20": dict(
        text="PARTIAL (row bookkeeping proved, search clause tested). Theorems over a model of sqlite_history.rs (history table as "
             "rows in rowid order, cached maximal rowid, session, INSERT OR REPLACE under the unique index): for every sequence "
             "of adds, gets, limit changes and reopens the rowids stay strictly increasing along the table, which is the order of "
             "(last) entry; an accepted line becomes the newest row and a copy entered in the same session disappears; add "
             "refuses exactly the empty line, a zero limit and a leading blank under ignore-space; walking from the newest row "
             "down (largest rowid at or below the index) and back up visits every row exactly once, in order, whatever gaps the "
             "rowids have. The model is compared with the bundled SQLite on every answer, and the interactive editor is run over "
             "a real SQLiteHistory on a pty (two sessions, Up/Down walks and returned line against a reference walk). The search "
             "clause (returns nothing or an entry that really contains / starts with the text, never an error) has no theorem: "
             "it is an oracle on the implementation for single alphanumeric words; known finding K4 (other search texts; prefix "
             "hits on entries with a leading separator); F18 (stale full-text index after a replaced duplicate) repaired.",
        note=COMMON_NOTE + "SQLite (storage, rowids, FTS4) is trusted/observed, not modelled; durability is SQLite's.",
        technique="Coq proof: invariant by induction over op sequences (StronglySorted rowids), induction over the row list for the walks; extracted-model differential check against the bundled SQLite on temporary databases + search oracle + editor walks over SQLiteHistory through a pty"),
    "C13": dict(
        text="Theorems for every validator, editor state and text: executing Enter / C-j / C-m says Submit only if the verdict on "
             "the current text is Valid, and then text and cursor are exactly those validated; a Valid verdict does submit; "
             "Incomplete (or Invalid without message) inserts one line break at the cursor and continues; Invalid with a message "
             "leaves text and cursor unchanged and writes the message; a validator error is the result of the read. Over whole "
             "reads (induction on the main loop, any input): a read that returns ended on a Submit, only the accept commands can "
             "produce one, and through Enter the returned text is the validated text. Non-terminal input (readline_direct), for "
             "every validator function and input stream: only strings the validator accepts are returned, a validator error is "
             "the read's result as an error (the next read starts afresh), Invalid returns nothing and keeps the text. Tied to "
             "/repo by the validate stream with a decision-table oracle recomputing the verdict from the observed text at every "
             "Enter, and by the direct-validate stream (stdin a pipe; bracket matcher and a scripted validator with every "
             "verdict, errors included).",
        note=TTY_NOTE + "AcceptLine via custom binding and vi C-d bypass validation by design (stated in the theorem).",
        technique="Coq proof: symbolic execution of the editor monad per verdict; induction over the main loop's fuel; extracted-model differential check through a pty + decision-table oracle"),
    "C03": dict(
        text="Theorems over the model of every public LineBuffer method (same byte arithmetic, explicit Panic): for EVERY "
             "operation, Unicode data, segmentation, buffer and parameters the notifications replayed on the old text give "
             "the new text, and motions/copies change nothing and notify nothing; TOTALITY AND CURSOR VALIDITY OF EVERY "
             "OPERATION (C03_all_total_wf): character, word (every count / word definition / At), character-search, line and "
             "buffer motions and kills, transpose_chars / transpose_words, edit_word, copy and kill of every Movement, "
             "indent / dedent, line-up / line-down with any width function, update's boundary cut -- from any buffer whose "
             "cursor is on a character boundary the operation returns (the model's Panic -- slice off a boundary, underflow, "
             "unwrap of None -- is unreachable) and the cursor is on a boundary again; hence no step of any operation "
             "sequence panics (C03_run_never_panics). Hypotheses: the segmentation partitions the text into non-empty "
             "clusters (proved for the model's UAX #29 segmentation: C03_all_total_wf_useg has no hypothesis); the five "
             "raw-offset operations carry the crate's stated precondition (offsets on boundaries, ordered). insert/yank "
             "refuse or stay within a fixed capacity. The tie to the code is the linebuf stream (every operation, "
             "small-exhaustive + random).",
        note=COMMON_NOTE + "Preconditions: cursor on a character boundary; raw primitives get in-text boundary ranges.",
        technique="Coq proof: compositional replay/purity over a state monad whose only mutators are 4 primitives; boundary algebra + a small Hoare logic over the buffer monad for totality and the cursor invariant of every operation (induction over word / line / indent loops); extracted-model differential check (small-exhaustive + random)"),
    "C04": dict(
        text="Theorems: forward motion/delete by n from a boundary covers exactly the first min(n,remaining) clusters (and "
             "the single notification names them); motion targets are character boundaries on the right side of the "
             "cursor; end-of-line brackets the cursor with no line break inside; KILL = COPY (C04_kill_is_copy): for EVERY "
             "Movement, buffer and boundary cursor, if copy returns t then kill removes exactly t where it lay, changes nothing "
             "else and leaves the cursor where t began; the count-iteration law is REFUTED by a kernel-checked witness (known "
             "finding K_word_count). PARTIAL: WHERE a word / line / character-search movement ends (word starts/ends under the "
             "three definitions, line ranges, n-th occurrence) is decided by the declarative oracle on the implementation (with "
             "its own segmentation and Unicode tables) and by model correspondence.",
        note=COMMON_NOTE + "Known finding K_word_count is reported as KNOWN-FINDING; its class is pinned by the model correspondence.",
        technique="Coq proof over cluster lists + declarative/metamorphic oracle + extracted-model differential check"),
    "C09": dict(
        text="Theorems (closed under the global context) over the model of MemHistory: for every op sequence the entries are "
             "the last k accepted lines (ghost log) within the limit; add refuses exactly the four documented cases; get is "
             "indexing; search/starts_with hits are real matches at the nearest index (start included) and misses mean no "
             "match in that direction; str::find is the first occurrence. Tied to /repo by the hist stream on MemHistory and "
             "FileHistory plus a spec-level oracle on the implementation's answers.",
        note=COMMON_NOTE + "usize modelled as unbounded nat.",
        technique="Coq invariant by induction over op lists + refinement to a ghost log; extracted-model differential check"),
    "C10": dict(
        text="Theorems over the model of save_to/load_from: escaping is injective and LF/CR-free, strict UTF-8 round trip, "
             "load(save es) offers exactly es to add, entries any add sequence can produce reload identically, append fast "
             "path bytes = save bytes, legacy files offer every line verbatim. Tied to /repo by the fhist stream (file bytes, "
             "entries, results compared op by op) and an independent reload oracle.",
        note=COMMON_NOTE + "File system modelled as one byte string with an mtime; I/O errors not modelled.",
        technique="Coq proof by induction over entries/characters (UTF-8 arithmetic by lia) + extracted-model differential check"),
    "C11": dict(
        text="Theorems at operation granularity over the multi-session model: through every interleaving the file stays a "
             "saved entry list and loads; each append has one of four exactly characterised effects on the file; the merge "
             "path yields old entries then accepted pending lines cut from the old end (exact when nothing is refused and all "
             "fits); a write leaves nothing pending and an append with nothing pending does not touch the file. PARTIAL: the "
             "bound under distinguishable mtimes and real concurrency are checked by the oracle on observed runs only.",
        note=COMMON_NOTE + "save/append/load are atomic steps of the model (they hold the advisory lock in the code); "
             "mtime distinguishability is an observed input (tick bit).",
        technique="Coq invariant over arbitrary interleavings (induction on op lists) + extracted-model differential check with observed mtime ticks"),
    "C12": dict(
        text="Theorems: for every entry list and every cut offset >= 4 of its saved bytes, loading offers a prefix of the "
             "entries plus at most one cut of the next entry (a decoding error keeps what was loaded); into a fresh history "
             "with the writer's settings the entries ARE that prefix; append fast-path prefixes are save prefixes; for "
             "arbitrary bytes every entry comes from a complete decodable line, in order, and an error stops at the first "
             "undecodable line. Panic-freedom of the slicing rests on the random-bytes stream under catch_unwind (PARTIAL there).",
        note=COMMON_NOTE + "A crash leaves a prefix of the bytes written.",
        technique="Coq proof by induction over entries and cut offsets (prefix-code property of UTF-8) + differential check over all cuts"),
    "C15": dict(
        text="Theorems over the model of completion.rs with the unix character sets regenerated from the source: escape then "
             "unescape is the identity (bare and double-quote rules; single quotes escape nothing); a replacement inserted "
             "after text that ends outside quotes at a word boundary / after an open double or single quote is parsed back by "
             "complete_path to the same start offset and the same path (extract_word walks back over the escaped word, "
             "find_unclosed_quote is not confused by escaped quotes); candidates are exactly the directory entries whose "
             "names start with the partial name, so a file offered once is offered again; the longest common prefix computed on "
             "bytes of adjacent candidates and backed off to a character boundary is, for every list of Rust strings, exactly "
             "the greatest common prefix taken character by character (a prefix of every candidate, every common prefix a "
             "prefix of it; None only without candidates or without a common first character), and its final slice never fails.",
        note=COMMON_NOTE + "The directory tree is a parameter of the model; std::fs/read_dir, home-directory expansion and "
             "absolute paths are not modelled.",
        technique="Coq proof by induction over the escaped word (backward scan / quote scanner invariants); loop invariant of the byte-wise prefix loop + prefix-code property of UTF-8 for the longest common prefix; differential check on real temporary directories"),
    "C18": dict(
        text="Theorems, for every segmentation function: the byte arithmetic of apply_backspace_direct never panics and equals "
             "the stack semantics (backspace removes the cluster before it) for clusters of any byte length; the result is a "
             "sub-sequence of the input's clusters; without a validator successive reads return the successive lines without "
             "LF/CRLF then end-of-file, the lines concatenating to the input; with a validator only accepted strings are "
             "returned and Incomplete keeps the terminator. Tied to /repo by the direct stream (a child process with stdin a "
             "pipe) and the seg stream (model segmentation vs unicode-segmentation).",
        note=COMMON_NOTE + "Input streams are valid UTF-8; grapheme segmentation is the dependency's (modelled, compared on ~7k strings per run).",
        technique="Coq proof (invariant over the cluster fold; induction over lines) + extracted-model differential check through a pipe"),
}

NOT_YET = "not claimed yet: model and theorems under construction (DESIGN.md section 8 gives the build order); no check is registered until it is sound"


def main():
    props = [json.loads(l) for l in open(os.path.join(HERE, "properties.jsonl"))]
    m = {
        "version": 1,
        "setup_cmd": "./check setup",
        "hooks": {"guard": "rustyline_verif",
                  "enable": "RUSTFLAGS=\"--cfg rustyline_verif\" (set by tools/common.py harness_build); no source hook exists, the flag is reserved",
                  "baseline_off_cmd": "cd /repo && cargo test --workspace --no-fail-fast --offline",
                  "source_commits": [], "add_only": True},
        "engines": [{"name": "coq-model+correspondence", "path": "check", "serves_properties": sorted(CLAIMED),
                     "kind_free_text": "Coq 8.16 theorems over a hand-written executable Gallina model; extracted model vs real crate differential check and spec-level oracle on every run"}],
        "checks": [],
        "notes": "See DESIGN.md. Repairs made to /repo are listed in known_findings.json (status fixed).",
        "not_applicable": [],
    }
    missing = [p["id"] for p in props if p["id"] not in CLAIMED]
    assert not missing, "every property has a registered check; entries lost for %s" % missing
    for p in props:
        i = p["id"]
        if i in CLAIMED:
            c = CLAIMED[i]
            m["checks"].append({
                "property_id": i, "quick_cmd": "./check %s quick" % i, "thorough_cmd": "./check %s thorough" % i,
                "evidence_file": "/verif/evidence/%s.json" % i, "replay_cmd_template": "./check replay {path}",
                "engine": "coq-model+correspondence",
                "level_claimed": {"category": "proof", "text": c["text"], "design_ref": "DESIGN.md section 6, " + i},
                "level_note": c["note"], "technique": c["technique"]})
        else:
            m["not_applicable"].append({"property_id": i, "reason": NOT_YET})
    json.dump(m, open(os.path.join(HERE, "MANIFEST.json"), "w"), indent=1)


if __name__ == "__main__":
    main()
