// Stream `seg`: extended grapheme clusters of the dependency, forward and
// backward, so that the model's Uax29.v can be compared with it.
use crate::util::*;
use std::io::{BufRead, Write};
use unicode_segmentation::UnicodeSegmentation;

pub fn run(inp: &mut dyn BufRead, out: &mut dyn Write) {
    for line in inp.lines() {
        let line = line.unwrap();
        let t = line.trim();
        if t.is_empty() {
            continue;
        }
        let s = parse_str(t);
        let fwd: Vec<String> = s.graphemes(true).map(|g| fmt_str(g)).collect();
        let mut bwd: Vec<String> = s.graphemes(true).rev().map(|g| fmt_str(g)).collect();
        bwd.reverse();
        let f = if fwd.is_empty() { "_".to_owned() } else { fwd.join(",") };
        if fwd == bwd {
            writeln!(out, "{}", f).unwrap();
        } else {
            writeln!(out, "{} BACKWARD-DIFFERS {}", f, bwd.join(",")).unwrap();
        }
    }
}
