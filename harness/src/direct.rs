// Stream `direct` (C18): Editor::readline with stdin a pipe. Each case runs a
// child process (this same binary, `direct-child`) fed the input bytes.
use crate::util::*;
use rustyline::completion::Completer;
use rustyline::highlight::Highlighter;
use rustyline::hint::Hinter;
use rustyline::validate::{MatchingBracketValidator, ValidationContext, ValidationResult, Validator};
use rustyline::{Editor, Helper};
use std::io::{BufRead, Write};
use std::process::{Command, Stdio};

pub struct BracketHelper {
    v: MatchingBracketValidator,
    script: bool,
}
impl Completer for BracketHelper {
    type Candidate = String;
}
impl Hinter for BracketHelper {
    type Hint = String;
}
impl Highlighter for BracketHelper {}
impl Validator for BracketHelper {
    fn validate(&self, ctx: &mut ValidationContext) -> rustyline::Result<ValidationResult> {
        if self.script {
            // scripted verdicts, decided by what the text contains (same table as the tty child)
            let input = ctx.input();
            return if input.contains("#@") {
                Err(rustyline::error::ReadlineError::Io(std::io::Error::new(
                    std::io::ErrorKind::Interrupted,
                    "scripted validator error (interrupted)",
                )))
            } else if input.contains("##") {
                Err(rustyline::error::ReadlineError::Io(std::io::Error::new(
                    std::io::ErrorKind::Other,
                    "scripted validator error",
                )))
            } else if input.contains("!!") {
                Ok(ValidationResult::Invalid(Some(" <-- bad".to_owned())))
            } else if input.contains("~~") {
                Ok(ValidationResult::Invalid(Some(String::new())))
            } else if input.contains("??") {
                Ok(ValidationResult::Invalid(None))
            } else if input.ends_with('\\') {
                Ok(ValidationResult::Incomplete)
            } else if input.contains("ok") {
                Ok(ValidationResult::Valid(Some(" fine".to_owned())))
            } else {
                Ok(ValidationResult::Valid(None))
            };
        }
        self.v.validate(ctx)
    }
}
impl Helper for BracketHelper {}

/// kind: "0" no validator, "1" the shipped bracket validator, "2" the scripted validator
pub fn child(kind: &str) {
    let with_validator = kind != "0";
    let script = kind == "2";
    let mut out = std::io::stdout();
    let mut results: Vec<String> = Vec::new();
    let r = guarded(|| {
        let mut rl: Editor<BracketHelper, rustyline::history::DefaultHistory> = Editor::new().unwrap();
        if with_validator {
            rl.set_helper(Some(BracketHelper { v: MatchingBracketValidator::new(), script }));
        }
        let mut res = Vec::new();
        for _ in 0..400 {
            match guarded(|| rl.readline("")) {
                None => {
                    res.push("PANIC".to_owned());
                    break;
                }
                Some(Ok(l)) => res.push(format!("L:{}", fmt_str(&l))),
                Some(Err(rustyline::error::ReadlineError::Eof)) => {
                    res.push("EOF".to_owned());
                    break;
                }
                Some(Err(_)) => res.push("ERR".to_owned()),
            }
        }
        res
    });
    match r {
        Some(v) => results = v,
        None => results.push("PANIC".to_owned()),
    }
    writeln!(out, "\nRESULT {}", results.join(" ")).unwrap();
}

/// case: `<0|1> <bytes>`
pub fn run(inp: &mut dyn BufRead, out: &mut dyn Write) {
    let me = std::env::current_exe().unwrap();
    for line in inp.lines() {
        let line = line.unwrap();
        let t: Vec<&str> = line.split_whitespace().collect();
        if t.len() < 2 {
            continue;
        }
        let bytes = parse_bytes(t[1]);
        // `<kind>` or `<kind>d`: d = TERM=dumb (an unsupported terminal: the same non-interactive path, reached by another test)
        let (kind, term) = match t[0].strip_suffix('d') {
            Some(k) => (k, "dumb"),
            None => (t[0], "xterm"),
        };
        let mut ch = Command::new(&me)
            .arg("direct-child")
            .arg(kind)
            .env("TERM", term)
            .stdin(Stdio::piped())
            .stdout(Stdio::piped())
            .stderr(Stdio::null())
            .spawn()
            .unwrap();
        {
            let mut si = ch.stdin.take().unwrap();
            let _ = si.write_all(&bytes);
        }
        let o = ch.wait_with_output().unwrap();
        let s = String::from_utf8_lossy(&o.stdout);
        // the validator's messages are written to stdout as well: the results are on the last RESULT line
        let s = s.rfind("\nRESULT ").map_or("", |i| s[i + 8..].trim());
        if s.is_empty() {
            writeln!(out, "CHILD-DIED").unwrap();
        } else {
            writeln!(out, "{}", s).unwrap();
        }
    }
}
