// Stream `linebuf` (C03/C04): every public LineBuffer method with a
// recording listener.
use crate::util::*;
use rustyline::line_buffer::{ChangeListener, DeleteListener, Direction, LineBuffer, WordAction};
use rustyline::{At, CharSearch, Movement, Word};
use std::io::{BufRead, Write};

#[derive(Default)]
pub struct Rec {
    pub ev: Vec<String>,
}
impl DeleteListener for Rec {
    fn start_killing(&mut self) {
        self.ev.push("sk".into());
    }
    fn delete(&mut self, idx: usize, string: &str, dir: Direction) {
        self.ev.push(format!(
            "d:{}:{}:{}",
            idx,
            fmt_str(string),
            if dir == Direction::Forward { "f" } else { "b" }
        ));
    }
    fn stop_killing(&mut self) {
        self.ev.push("ek".into());
    }
}
impl ChangeListener for Rec {
    fn insert_char(&mut self, idx: usize, c: char) {
        self.ev.push(format!("ic:{}:{:x}", idx, c as u32));
    }
    fn insert_str(&mut self, idx: usize, string: &str) {
        self.ev.push(format!("is:{}:{}", idx, fmt_str(string)));
    }
    fn replace(&mut self, idx: usize, old: &str, new: &str) {
        self.ev.push(format!("rp:{}:{}:{}", idx, fmt_str(old), fmt_str(new)));
    }
}

pub fn word(t: &str) -> Word {
    match t {
        "b" => Word::Big,
        "e" => Word::Emacs,
        _ => Word::Vi,
    }
}
pub fn at(t: &str) -> At {
    match t {
        "s" => At::Start,
        "b" => At::BeforeEnd,
        _ => At::AfterEnd,
    }
}
pub fn cs(t: &str) -> CharSearch {
    let (k, c) = t.split_once(':').unwrap();
    let c = char::from_u32(u32::from_str_radix(c, 16).unwrap()).unwrap();
    match k {
        "f" => CharSearch::Forward(c),
        "F" => CharSearch::ForwardBefore(c),
        "b" => CharSearch::Backward(c),
        _ => CharSearch::BackwardAfter(c),
    }
}
pub fn mvt(t: &str) -> Movement {
    let p: Vec<&str> = t.split('/').collect();
    let n = |i: usize| -> u16 { p[i].parse().unwrap() };
    match p[0] {
        "wl" => Movement::WholeLine,
        "bol" => Movement::BeginningOfLine,
        "eol" => Movement::EndOfLine,
        "bw" => Movement::BackwardWord(n(1), word(p[2])),
        "fw" => Movement::ForwardWord(n(1), at(p[2]), word(p[3])),
        "cs" => Movement::ViCharSearch(n(1), cs(p[2])),
        "vfp" => Movement::ViFirstPrint,
        "bc" => Movement::BackwardChar(n(1)),
        "fc" => Movement::ForwardChar(n(1)),
        "lu" => Movement::LineUp(n(1)),
        "ld" => Movement::LineDown(n(1)),
        "wb" => Movement::WholeBuffer,
        "bob" => Movement::BeginningOfBuffer,
        "eob" => Movement::EndOfBuffer,
        other => panic!("movement {other}"),
    }
}

fn ob(b: Option<bool>) -> String {
    match b {
        None => "none".into(),
        Some(true) => "some1".into(),
        Some(false) => "some0".into(),
    }
}
fn b01(b: bool) -> String {
    if b { "1".into() } else { "0".into() }
}

pub fn apply(lb: &mut LineBuffer, rec: &mut Rec, t: &[&str]) -> String {
    let n = |i: usize| -> u16 { t[i].parse().unwrap() };
    let u = |i: usize| -> usize { t[i].parse().unwrap() };
    match t[0] {
        "ins" => ob(lb.insert(char::from_u32(u32::from_str_radix(t[1], 16).unwrap()).unwrap(), n(2), rec)),
        "yank" => ob(lb.yank(&parse_str(t[1]), n(2), rec)),
        "yankpop" => ob(lb.yank_pop(u(1), &parse_str(t[2]), rec)),
        "mb" => b01(lb.move_backward(n(1))),
        "mf" => b01(lb.move_forward(n(1))),
        "bs0" => b01(lb.move_buffer_start()),
        "be" => b01(lb.move_buffer_end()),
        "home" => b01(lb.move_home()),
        "end" => b01(lb.move_end()),
        "eoi" => b01(lb.is_end_of_input()),
        "del" => match lb.delete(n(1), rec) {
            None => "none".into(),
            Some(s) => format!("some:{}", fmt_str(&s)),
        },
        "bsp" => b01(lb.backspace(n(1), rec)),
        "kl" => b01(lb.kill_line(rec)),
        "kb" => b01(lb.kill_buffer(rec)),
        "dl" => b01(lb.discard_line(rec)),
        "db" => b01(lb.discard_buffer(rec)),
        "tc" => b01(lb.transpose_chars(rec)),
        "mpw" => b01(lb.move_to_prev_word(word(t[1]), n(2))),
        "dpw" => b01(lb.delete_prev_word(word(t[1]), n(2), rec)),
        "mnw" => b01(lb.move_to_next_word(at(t[1]), word(t[2]), n(3))),
        "mto" => b01(lb.move_to(cs(t[1]), n(2))),
        "dw" => b01(lb.delete_word(at(t[1]), word(t[2]), n(3), rec)),
        "dto" => b01(lb.delete_to(cs(t[1]), n(2), rec)),
        "ew" => b01(lb.edit_word(
            match t[1] {
                "c" => WordAction::Capitalize,
                "l" => WordAction::Lowercase,
                _ => WordAction::Uppercase,
            },
            rec,
        )),
        "tw" => b01(lb.transpose_words(n(1), rec)),
        "repl" => {
            lb.replace(u(1)..u(2), &parse_str(t[3]), rec);
            "u".into()
        }
        "istr" => b01(lb.insert_str(u(1), &parse_str(t[2]), rec)),
        "drange" => {
            lb.delete_range(u(1)..u(2), rec);
            "u".into()
        }
        "copy" => match lb.copy(&mvt(t[1])) {
            None => "none".into(),
            Some(s) => format!("some:{}", fmt_str(&s)),
        },
        "kill" => b01(lb.kill(&mvt(t[1]), rec)),
        "indent" => b01(lb.indent(&mvt(t[1]), t[2].parse().unwrap(), t[3] == "1", rec)),
        "upd" => {
            lb.update(&parse_str(t[1]), u(2), rec);
            "u".into()
        }
        "setpos" => {
            lb.set_pos(u(1));
            "u".into()
        }
        "npos" => match lb.next_pos(n(1)) {
            None => "none".into(),
            Some(p) => format!("some:{}", p),
        },
        other => panic!("linebuf op {other}"),
    }
}

/// case: `<cap> <buf> <pos> ; op ; op ...`
pub fn run(inp: &mut dyn BufRead, out: &mut dyn Write) {
    for line in inp.lines() {
        let line = line.unwrap();
        if line.trim().is_empty() {
            continue;
        }
        let mut parts = line.split(';').map(str::trim);
        let head: Vec<&str> = parts.next().unwrap().split_whitespace().collect();
        let cap: usize = head[0].parse().unwrap();
        if String::with_capacity(cap).capacity() != cap {
            writeln!(out, "CAPMISMATCH").unwrap();
            continue;
        }
        let mut lb = LineBuffer::with_capacity(cap);
        let mut rec = Rec::default();
        let init = parse_str(head[1]);
        lb.insert_str(0, &init, &mut rec);
        lb.set_pos(head[2].parse().unwrap());
        let mut res = Vec::new();
        for op in parts {
            let t: Vec<&str> = op.split_whitespace().collect();
            if t.is_empty() {
                continue;
            }
            rec.ev.clear();
            match guarded(|| apply(&mut lb, &mut rec, &t)) {
                None => {
                    res.push("panic".to_owned());
                    break;
                }
                Some(r) => {
                    let ok = lb.as_str().is_char_boundary(lb.pos()) && lb.pos() <= lb.len();
                    res.push(format!(
                        "r={} b={} p={}{} e={}",
                        r,
                        fmt_str(lb.as_str()),
                        lb.pos(),
                        if ok { "" } else { "!" },
                        if rec.ev.is_empty() { "_".to_owned() } else { rec.ev.join(",") }
                    ));
                }
            }
        }
        writeln!(out, "{}", res.join(" ; ")).unwrap();
    }
}
