// Stream `sqlhist` (C20): SQLiteHistory on a temporary database file.
// case: `<max> <igs> <igd> ; op ; op ...`   ops: add <s> | get <i> f|r | len | setmax <n> | reopen
//                                                search <s> <i> f|r | sw <s> <i> f|r | kill
use crate::util::*;
use rustyline::history::{History, SearchDirection};
use rustyline::sqlite_history::SQLiteHistory;
use rustyline::Config;
use std::io::{BufRead, Write};

fn cfg(max: usize, igs: bool, igd: bool) -> Config {
    Config::builder()
        .max_history_size(max)
        .unwrap()
        .history_ignore_space(igs)
        .history_ignore_dups(igd)
        .unwrap()
        .build()
}

fn dir(tok: &str) -> SearchDirection {
    if tok == "f" {
        SearchDirection::Forward
    } else {
        SearchDirection::Reverse
    }
}

pub fn run_sqlhist(inp: &mut dyn BufRead, out: &mut dyn Write) {
    let tmp = std::env::temp_dir().join(format!("rlsql-{}", std::process::id()));
    std::fs::create_dir_all(&tmp).unwrap();
    let mut n = 0usize;
    for line in inp.lines() {
        let line = line.unwrap();
        if line.trim().is_empty() {
            continue;
        }
        n += 1;
        let path = tmp.join(format!("h{}.sqlite3", n));
        let _ = std::fs::remove_file(&path);
        let mut parts = line.split(';').map(str::trim);
        let head: Vec<&str> = parts.next().unwrap().split_whitespace().collect();
        let (max, igs, igd) = (head[0].parse().unwrap(), parse_bool(head[1]), parse_bool(head[2]));
        let res = guarded(|| {
            let mut outs: Vec<String> = Vec::new();
            let mut h = SQLiteHistory::open(cfg(max, igs, igd), &path).expect("open");
            let mut cur = (igs, igd);
            for op in parts {
                let t: Vec<&str> = op.split_whitespace().collect();
                if t.is_empty() {
                    continue;
                }
                let o = match t[0] {
                    "add" => match h.add(&parse_str(t[1])) {
                        Ok(b) => format!("b{}", b as u8),
                        Err(_) => "err".into(),
                    },
                    "get" => match h.get(t[1].parse().unwrap(), dir(t[2])) {
                        Ok(None) => "g:none".into(),
                        Ok(Some(sr)) => format!("g:{},{}", sr.idx, fmt_str(&sr.entry)),
                        Err(_) => "err".into(),
                    },
                    "len" => format!("n:{}", h.len()),
                    "setmax" => match h.set_max_len(t[1].parse().unwrap()) {
                        Ok(()) => "u".into(),
                        Err(_) => "err".into(),
                    },
                    "save" => match h.save(&path) {
                        Ok(()) => "u".into(),
                        Err(_) => "err".into(),
                    },
                    "append" => match h.append(&path) {
                        Ok(()) => "u".into(),
                        Err(_) => "err".into(),
                    },
                    "setdups" => {
                        // the duplicates policy switched on the open object; a refusal (rows that are duplicates under
                        // the new policy) is answered by switching back
                        let b = parse_bool(t[1]);
                        match h.ignore_dups(b) {
                            Ok(()) => {
                                cur.1 = b;
                                "u".into()
                            }
                            Err(_) => {
                                h.ignore_dups(!b).expect("switching back");
                                "x".into()
                            }
                        }
                    }
                    "setspace" => {
                        let b = parse_bool(t[1]);
                        h.ignore_space(b);
                        cur.0 = b;
                        "u".into()
                    }
                    "reopen2" => {
                        // the database reopened with ANOTHER duplicates / blanks policy
                        drop(h);
                        cur = (parse_bool(t[1]), parse_bool(t[2]));
                        h = SQLiteHistory::open(cfg(max, cur.0, cur.1), &path).expect("reopen2");
                        "u".into()
                    }
                    "load" => {
                        // a history made without a file, then pointed at the database with History::load: the same
                        // as opening that file (load with the object's own path does nothing at all)
                        drop(h);
                        h = SQLiteHistory::with_config(cfg(max, cur.0, cur.1)).expect("with_config");
                        match h.load(&path) {
                            Ok(()) => "u".into(),
                            Err(_) => "err".into(),
                        }
                    }
                    "reopen" => {
                        drop(h);
                        h = SQLiteHistory::open(cfg(max, cur.0, cur.1), &path).expect("reopen");
                        "u".into()
                    }
                    "search" | "sw" => {
                        let term = parse_str(t[1]);
                        let r = if t[0] == "search" {
                            h.search(&term, t[2].parse().unwrap(), dir(t[3]))
                        } else {
                            h.starts_with(&term, t[2].parse().unwrap(), dir(t[3]))
                        };
                        match r {
                            Ok(None) => "s:none".into(),
                            Ok(Some(sr)) => format!("s:{},{},{}", sr.idx, sr.pos, fmt_str(&sr.entry)),
                            Err(_) => "s:err".into(),
                        }
                    }
                    other => panic!("unknown sqlhist op {other}"),
                };
                outs.push(o);
            }
            outs.join(";")
        });
        let _ = std::fs::remove_file(&path);
        writeln!(out, "{}", res.unwrap_or_else(|| "panic".to_owned())).unwrap();
    }
    let _ = std::fs::remove_dir_all(&tmp);
}
