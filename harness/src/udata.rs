// Dump the Unicode data the implementation's own libraries use, as range
// tables, so that the model is executed with exactly the same data.
use std::io::Write;
use unicode_width::UnicodeWidthChar;

fn ranges<F: Fn(char) -> bool>(out: &mut dyn Write, name: &str, f: F) {
    let mut v: Vec<(u32, u32)> = Vec::new();
    for cp in 0..=0x10FFFFu32 {
        if let Some(c) = char::from_u32(cp) {
            if f(c) {
                match v.last_mut() {
                    Some(l) if l.1 + 1 == cp => l.1 = cp,
                    _ => v.push((cp, cp)),
                }
            }
        }
    }
    let s: Vec<String> = v.iter().map(|(a, b)| format!("{:x}-{:x}", a, b)).collect();
    writeln!(out, "range {} {}", name, s.join(",")).unwrap();
}

fn mapping<F: Fn(char) -> String>(out: &mut dyn Write, name: &str, f: F) {
    for cp in 0..=0x10FFFFu32 {
        if let Some(c) = char::from_u32(cp) {
            let m = f(c);
            let mut it = m.chars();
            if !(it.next() == Some(c) && it.next().is_none()) {
                let s: Vec<String> = m.chars().map(|x| format!("{:x}", x as u32)).collect();
                writeln!(out, "map {} {:x} {}", name, cp, s.join(".")).unwrap();
            }
        }
    }
}

pub fn dump(out: &mut dyn Write) {
    ranges(out, "whitespace", char::is_whitespace);
    ranges(out, "alphanumeric", char::is_alphanumeric);
    ranges(out, "alphabetic", char::is_alphabetic);
    ranges(out, "control", char::is_control);
    ranges(out, "lowercase", char::is_lowercase);
    ranges(out, "uppercase", char::is_uppercase);
    ranges(out, "width0", |c| c.width().unwrap_or(0) == 0);
    ranges(out, "width2", |c| c.width().unwrap_or(0) == 2);
    mapping(out, "upper", |c| c.to_uppercase().collect());
    mapping(out, "lower", |c| c.to_lowercase().collect());
}
