// Streams `hist` (C09) and `fhist` (C10/C11/C12): drive MemHistory /
// FileHistory through the public History trait.
use crate::util::*;
use rustyline::history::{FileHistory, History, MemHistory, SearchDirection, SearchResult};
use rustyline::Config;
use std::io::{BufRead, Write};
use std::path::PathBuf;

fn cfg(max: usize, igs: bool, igd: bool) -> Config {
    Config::builder()
        .max_history_size(max)
        .unwrap()
        .history_ignore_space(igs)
        .history_ignore_dups(igd)
        .unwrap()
        .build()
}

fn dir(tok: &str) -> SearchDirection {
    if tok == "f" {
        SearchDirection::Forward
    } else {
        SearchDirection::Reverse
    }
}

fn fmt_search(r: rustyline::Result<Option<SearchResult>>) -> String {
    match r {
        Ok(None) => "s:none".to_owned(),
        Ok(Some(sr)) => format!("s:{},{},{}", sr.idx, sr.pos, fmt_str(&sr.entry)),
        Err(_) => "s:err".to_owned(),
    }
}

fn hist_op(h: &mut dyn History, t: &[&str]) -> String {
    match t[0] {
        "add" => match h.add(&parse_str(t[1])) {
            Ok(b) => format!("b{}", b as u8),
            Err(_) => "err".into(),
        },
        "addo" => match h.add_owned(parse_str(t[1])) {
            Ok(b) => format!("b{}", b as u8),
            Err(_) => "err".into(),
        },
        "setmax" => {
            h.set_max_len(t[1].parse().unwrap()).unwrap();
            "u".into()
        }
        "dups" => {
            h.ignore_dups(parse_bool(t[1])).unwrap();
            "u".into()
        }
        "space" => {
            h.ignore_space(parse_bool(t[1]));
            "u".into()
        }
        "clear" => {
            h.clear().unwrap();
            "u".into()
        }
        "get" => match h.get(t[1].parse().unwrap(), SearchDirection::Forward) {
            Ok(None) => "e:none".into(),
            Ok(Some(sr)) => format!("e:{}", fmt_str(&sr.entry)),
            Err(_) => "err".into(),
        },
        "search" => fmt_search(h.search(&parse_str(t[1]), t[2].parse().unwrap(), dir(t[3]))),
        "sw" => fmt_search(h.starts_with(&parse_str(t[1]), t[2].parse().unwrap(), dir(t[3]))),
        "len" => format!("n:{}", h.len()),
        other => panic!("unknown hist op {other}"),
    }
}

/// case: `<mem|file> <max> <igs> <igd> ; op ; op ...`
pub fn run_hist(inp: &mut dyn BufRead, out: &mut dyn Write) {
    for line in inp.lines() {
        let line = line.unwrap();
        if line.trim().is_empty() {
            continue;
        }
        let mut parts = line.split(';').map(str::trim);
        let head: Vec<&str> = parts.next().unwrap().split_whitespace().collect();
        let c = cfg(head[1].parse().unwrap(), parse_bool(head[2]), parse_bool(head[3]));
        let mut h: Box<dyn History> = if head[0] == "mem" {
            Box::new(MemHistory::with_config(c))
        } else {
            Box::new(FileHistory::with_config(c))
        };
        let mut res = Vec::new();
        for op in parts {
            let t: Vec<&str> = op.split_whitespace().collect();
            if t.is_empty() {
                continue;
            }
            let r = guarded(|| hist_op(h.as_mut(), &t)).unwrap_or_else(|| "panic".into());
            res.push(r);
        }
        writeln!(out, "{}", res.join(";")).unwrap();
    }
}

fn mtime(p: &PathBuf) -> Option<std::time::SystemTime> {
    std::fs::metadata(p).ok().and_then(|m| m.modified().ok())
}

/// case: `op ; op ...` with ops
///   new i max igs igd | add i STR | save i | append i | load i | setmax i n
///   | clear i | put BYTES | rm | race i j .. (the sessions append concurrently) | csave i K | cappend i K  (save / append cut off at file size K)
/// output: `<ticks> | obs ; obs ...`, obs = `R=.. E=.. F=..`
pub fn run_fhist(inp: &mut dyn BufRead, out: &mut dyn Write) {
    let base = std::env::temp_dir().join(format!("rlh-fhist-{}", std::process::id()));
    std::fs::create_dir_all(&base).unwrap();
    let path = base.join("h");
    for line in inp.lines() {
        let line = line.unwrap();
        if line.trim().is_empty() {
            continue;
        }
        let _ = std::fs::remove_file(&path);
        let mut sessions: Vec<(usize, FileHistory)> = Vec::new();
        let mut ticks = String::new();
        let mut obs = Vec::new();
        // newest mtime handed out so far (survives removal of the file)
        let mut last_mtime: Option<std::time::SystemTime> = None;
        for op in line.split(';').map(str::trim) {
            let t: Vec<&str> = op.split_whitespace().collect();
            if t.is_empty() {
                continue;
            }
            let mut sess_entries = "_".to_owned();
            let r: String = match t[0] {
                "new" => {
                    let i: usize = t[1].parse().unwrap();
                    let h = FileHistory::with_config(cfg(
                        t[2].parse().unwrap(),
                        parse_bool(t[3]),
                        parse_bool(t[4]),
                    ));
                    if let Some(s) = sessions.iter_mut().find(|s| s.0 == i) {
                        s.1 = h;
                    } else {
                        sessions.push((i, h));
                    }
                    sess_entries = "_".into();
                    "unit".into()
                }
                "put" => {
                    std::fs::write(&path, parse_bytes(t[1])).unwrap();
                    "unit".into()
                }
                "rm" => {
                    let _ = std::fs::remove_file(&path);
                    "unit".into()
                }
                "race" => {
                    // sessions t[1..] append TRULY concurrently: every one of them is started while this thread holds the
                    // file's lock (flock, what fd-lock takes), so all of them are inside append -- waiting for the lock or
                    // about to -- when it is released. 40 ms earlier nothing touched the file: the first write gets an
                    // mtime that differs from every remembered one.
                    use std::os::unix::io::AsRawFd;
                    std::thread::sleep(std::time::Duration::from_millis(40));
                    let ids: Vec<usize> = t[1..].iter().map(|x| x.parse().unwrap()).collect();
                    let mut taken: Vec<(usize, FileHistory)> = Vec::new();
                    for i in &ids {
                        if let Some(k) = sessions.iter().position(|s| s.0 == *i) {
                            taken.push(sessions.remove(k));
                        }
                    }
                    let lockf = std::fs::File::open(&path).ok();
                    if let Some(f) = &lockf {
                        unsafe { libc::flock(f.as_raw_fd(), libc::LOCK_EX) };
                    }
                    let p2 = path.clone();
                    let results: Vec<String> = std::thread::scope(|sc| {
                        let hs: Vec<_> = taken
                            .iter_mut()
                            .map(|(_, h)| {
                                let p3 = p2.clone();
                                sc.spawn(move || guarded(|| io(h.append(&p3))).unwrap_or_else(|| "panic".into()))
                            })
                            .collect();
                        std::thread::sleep(std::time::Duration::from_millis(30));
                        if let Some(f) = &lockf {
                            unsafe { libc::flock(f.as_raw_fd(), libc::LOCK_UN) };
                        }
                        hs.into_iter().map(|h| h.join().unwrap_or_else(|_| "panic".into())).collect()
                    });
                    drop(lockf);
                    sessions.extend(taken);
                    if results.iter().all(|r| r == "ok") { "ok".into() } else { results.join(",") }
                }
                name => {
                    let i: usize = t[1].parse().unwrap();
                    match sessions.iter_mut().find(|s| s.0 == i) {
                        None => "nosess".into(),
                        Some((_, h)) => {
                            let r = guarded(|| match name {
                                "add" => match h.add(&parse_str(t[2])) {
                                    Ok(b) => (if b { "true" } else { "false" }).to_owned(),
                                    Err(_) => "err".into(),
                                },
                                // the other public way of entering a line (History::add_owned): the same meaning
                                "addo" => match h.add_owned(parse_str(t[2])) {
                                    Ok(b) => (if b { "true" } else { "false" }).to_owned(),
                                    Err(_) => "err".into(),
                                },
                                // the same write stopped by the kernel once the file would grow beyond K bytes (a crash point)
                                "csave" => with_fsize_limit(t[2].parse().unwrap(), || io(h.save(&path))),
                                "cappend" => with_fsize_limit(t[2].parse().unwrap(), || io(h.append(&path))),
                                "save" => io(h.save(&path)),
                                "append" => io(h.append(&path)),
                                "load" => io(h.load(&path)),
                                "setmax" => {
                                    h.set_max_len(t[2].parse().unwrap()).unwrap();
                                    "unit".into()
                                }
                                "clear" => {
                                    h.clear().unwrap();
                                    "unit".into()
                                }
                                other => panic!("unknown fhist op {other}"),
                            })
                            .unwrap_or_else(|| "panic".into());
                            sess_entries = fmt_strs(h.iter());
                            r
                        }
                    }
                }
            };
            let file = match std::fs::read(&path) {
                Ok(b) => fmt_bytes(&b),
                Err(_) => "none".into(),
            };
            let m = mtime(&path);
            let tick = match (m, last_mtime) {
                (Some(a), Some(b)) => a != b,
                (Some(_), None) => true,
                (None, _) => false,
            };
            if m.is_some() {
                last_mtime = m;
            }
            ticks.push(if tick { '1' } else { '0' });
            obs.push(format!("R={} E={} F={}", r, sess_entries, file));
        }
        writeln!(out, "{} | {}", ticks, obs.join(" ; ")).unwrap();
    }
    let _ = std::fs::remove_dir_all(&base);
}

/// run `f` with the file-size limit of this process at `k` bytes: a write reaching beyond it is cut short and the next
/// one fails (EFBIG; SIGXFSZ is ignored), which leaves on disk what a crash at that byte would leave
fn with_fsize_limit<T>(k: u64, f: impl FnOnce() -> T) -> T {
    unsafe {
        libc::signal(libc::SIGXFSZ, libc::SIG_IGN);
        let mut old: libc::rlimit = std::mem::zeroed();
        libc::getrlimit(libc::RLIMIT_FSIZE, &mut old);
        let new = libc::rlimit { rlim_cur: k as libc::rlim_t, rlim_max: old.rlim_max };
        libc::setrlimit(libc::RLIMIT_FSIZE, &new);
        let r = f();
        libc::setrlimit(libc::RLIMIT_FSIZE, &old);
        r
    }
}

fn io(r: rustyline::Result<()>) -> String {
    match r {
        Ok(()) => "ok".into(),
        Err(_) => "err".into(),
    }
}
