// Shared parsing / printing helpers: strings are '.'-separated hex code
// points ("-" = empty); byte strings likewise.
use std::fmt::Write as _;

pub fn parse_str(tok: &str) -> String {
    if tok == "-" {
        return String::new();
    }
    tok.split('.')
        .map(|h| char::from_u32(u32::from_str_radix(h, 16).expect("hex")).expect("scalar"))
        .collect()
}

pub fn parse_bytes(tok: &str) -> Vec<u8> {
    if tok == "-" {
        return Vec::new();
    }
    tok.split('.')
        .map(|h| u8::from_str_radix(h, 16).expect("hex byte"))
        .collect()
}

pub fn fmt_str(s: &str) -> String {
    if s.is_empty() {
        return "-".to_owned();
    }
    let mut out = String::new();
    for (i, c) in s.chars().enumerate() {
        if i > 0 {
            out.push('.');
        }
        write!(out, "{:x}", c as u32).unwrap();
    }
    out
}

pub fn fmt_bytes(b: &[u8]) -> String {
    if b.is_empty() {
        return "-".to_owned();
    }
    let mut out = String::new();
    for (i, c) in b.iter().enumerate() {
        if i > 0 {
            out.push('.');
        }
        write!(out, "{:x}", c).unwrap();
    }
    out
}

pub fn fmt_strs<'a, I: IntoIterator<Item = &'a String>>(it: I) -> String {
    let v: Vec<String> = it.into_iter().map(|s| fmt_str(s)).collect();
    if v.is_empty() {
        "_".to_owned()
    } else {
        v.join(",")
    }
}

pub fn parse_bool(tok: &str) -> bool {
    tok == "1"
}

/// Run `f`, mapping a panic to None. The default panic hook is silenced by main.
pub fn guarded<T, F: FnOnce() -> T>(f: F) -> Option<T> {
    std::panic::catch_unwind(std::panic::AssertUnwindSafe(f)).ok()
}
