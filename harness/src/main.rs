// rlharness: drives the real rustyline crate (built from /repo's working
// tree) on the case files the checks generate. One case per input line, one
// canonical result per output line.
mod compl;
mod direct;
mod hist;
mod linebuf;
mod seg;
mod sqlhist;
mod ttychild;
mod udata;
mod util;

use std::io::{BufReader, BufWriter, Write};

fn main() {
    // panics are values here (`panic`), not noise
    std::panic::set_hook(Box::new(|_| {}));
    let args: Vec<String> = std::env::args().collect();
    if args.len() < 2 {
        eprintln!("usage: rlharness <stream> [file]");
        std::process::exit(2);
    }
    if args[1] == "tty-child" {
        ttychild::main(&args[2]);
        return;
    }
    if args[1] == "direct-child" {
        direct::child(args.get(2).map(String::as_str).unwrap_or("0"));
        return;
    }
    let stdin = std::io::stdin();
    let mut inp: Box<dyn std::io::BufRead> = if args.len() > 2 {
        Box::new(BufReader::new(std::fs::File::open(&args[2]).expect("case file")))
    } else {
        Box::new(BufReader::new(stdin.lock()))
    };
    let stdout = std::io::stdout();
    let mut out = BufWriter::new(stdout.lock());
    match args[1].as_str() {
        "udata" => udata::dump(&mut out),
        "hist" => hist::run_hist(&mut inp, &mut out),
        "fhist" => hist::run_fhist(&mut inp, &mut out),
        "sqlhist" => sqlhist::run_sqlhist(&mut inp, &mut out),
        "seg" => seg::run(&mut inp, &mut out),
        "direct" => direct::run(&mut inp, &mut out),
        "compl" => compl::run(&mut inp, &mut out),
        "linebuf" => linebuf::run(&mut inp, &mut out),
        other => {
            eprintln!("unknown stream {other}");
            std::process::exit(2);
        }
    }
    out.flush().unwrap();
}
