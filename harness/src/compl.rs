// Stream `compl` (C15): FilenameCompleter on real temporary directories,
// longest_common_prefix, unescape.
use crate::util::*;
use rustyline::completion::{longest_common_prefix, unescape, FilenameCompleter};
use std::io::{BufRead, Write};

fn build_layout(root: &std::path::Path, layout: &str) -> Vec<std::path::PathBuf> {
    let mut reals = Vec::new();
    let mut nlink = 0;
    if layout == "_" {
        return reals;
    }
    for tok in layout.split(',') {
        let (kind, rest) = tok.split_at(1);
        match kind {
            "F" => {
                std::fs::write(root.join(parse_str(rest)), b"").unwrap();
            }
            "D" => {
                std::fs::create_dir_all(root.join(parse_str(rest))).unwrap();
            }
            "S" => {
                // a directory that is a symbolic link to a real directory kept outside the listed tree
                let real = root.with_extension(format!("real{}", nlink));
                nlink += 1;
                std::fs::create_dir_all(&real).unwrap();
                std::os::unix::fs::symlink(&real, root.join(parse_str(rest))).unwrap();
                reals.push(real);
            }
            "X" => {
                // a symbolic link whose target does not exist
                std::os::unix::fs::symlink(root.with_extension("missing"), root.join(parse_str(rest))).unwrap();
            }
            "G" | "H" => {
                let (p, n) = rest.split_once('|').unwrap();
                let dir = root.join(parse_str(p));
                std::fs::create_dir_all(&dir).unwrap();
                if kind == "G" {
                    std::fs::write(dir.join(parse_str(n)), b"").unwrap();
                } else {
                    std::fs::create_dir_all(dir.join(parse_str(n))).unwrap();
                }
            }
            _ => panic!("layout token {tok}"),
        }
    }
    reals
}

pub fn run(inp: &mut dyn BufRead, out: &mut dyn Write) {
    // the directory's own path has no break characters
    let base = std::env::temp_dir().join(format!("rlhcompl{}", std::process::id()));
    std::fs::create_dir_all(&base).unwrap();
    let mut n = 0usize;
    for line in inp.lines() {
        let line = line.unwrap();
        let t: Vec<&str> = line.split_whitespace().collect();
        if t.is_empty() {
            continue;
        }
        let r: String = match t[0] {
            "path" => {
                n += 1;
                let dir = base.join(format!("c{}", n));
                std::fs::create_dir_all(&dir).unwrap();
                let reals = build_layout(&dir, t[1]);
                std::env::set_current_dir(&dir).unwrap();
                let mut outs = Vec::new();
                for l in &t[2..] {
                    // `<before>` or `<before>|<after>`: the cursor sits between the two parts
                    let (before, after) = match l.split_once('|') {
                        Some((b, a)) => (parse_str(b), parse_str(a)),
                        None => (parse_str(l), String::new()),
                    };
                    let pos = before.len();
                    let l = before + &after;
                    let r = guarded(|| FilenameCompleter::new().complete_path(&l, pos));
                    outs.push(match r {
                        None => "panic".to_owned(),
                        Some(Err(_)) => "err".to_owned(),
                        Some(Ok((start, pairs))) => {
                            let v: Vec<String> = pairs
                                .iter()
                                .map(|p| format!("{}={}", fmt_str(&p.display), fmt_str(&p.replacement)))
                                .collect();
                            format!("{} {}", start, if v.is_empty() { "_".to_owned() } else { v.join(",") })
                        }
                    });
                }
                std::env::set_current_dir(&base).unwrap();
                let _ = std::fs::remove_dir_all(&dir);
                for r in reals {
                    let _ = std::fs::remove_dir_all(&r);
                }
                outs.join(" ; ")
            }
            "lcp" => {
                let cands: Vec<String> = t[1..].iter().map(|s| parse_str(s)).collect();
                match guarded(|| longest_common_prefix(&cands).map(|s| s.to_owned())) {
                    None => "panic".into(),
                    Some(None) => "none".into(),
                    Some(Some(s)) => format!("some:{}", fmt_str(&s)),
                }
            }
            "unesc" => {
                let s = parse_str(t[1]);
                match guarded(|| unescape(&s, Some('\\')).into_owned()) {
                    None => "panic".into(),
                    Some(r) => fmt_str(&r),
                }
            }
            other => panic!("unknown compl op {other}"),
        };
        writeln!(out, "{}", r).unwrap();
    }
    let _ = std::env::set_current_dir("/");
    let _ = std::fs::remove_dir_all(&base);
}
