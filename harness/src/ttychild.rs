// `tty-child <spec>`: an Editor on the process's own terminal (a pty set up by
// tools/ptydrive.py), configured from a spec file. Observation goes to fd 3:
//   K <line> <pos> <mode> <n> <positive> <hint>   each time a key reaches the keymap
//   R line:<hex> | R eof | R int | R err:<kind> | R panic             after each read
// The handler bound to Event::Any returns None, so it changes nothing.
use crate::util::*;
use rustyline::completion::Completer;
use rustyline::highlight::{CmdKind, Highlighter, MatchingBracketHighlighter};
use rustyline::hint::Hinter;
use rustyline::history::{DefaultHistory, History};
use rustyline::sqlite_history::SQLiteHistory;
use rustyline::validate::{ValidationContext, ValidationResult, Validator};
use rustyline::{
    Cmd, CompletionType, ConditionalEventHandler, Config, Context, EditMode, Editor, Event, EventContext,
    EventHandler, Helper, InputMode, KeyCode, KeyEvent, Modifiers, Movement, RepeatCount,
};
use std::borrow::Cow;
use std::fs::File;
use std::io::Write;
use std::os::unix::io::FromRawFd;
use std::sync::{Arc, Mutex};

type Log = Arc<Mutex<File>>;

fn logln(log: &Log, s: &str) {
    let mut f = log.lock().unwrap();
    let _ = writeln!(f, "{}", s);
    let _ = f.flush();
}

static RELAY_RD: std::sync::atomic::AtomicI32 = std::sync::atomic::AtomicI32::new(-1);
static RELAY_BUSY: std::sync::atomic::AtomicBool = std::sync::atomic::AtomicBool::new(false);

/// with `stdout_relay`: wait until everything written so far has been copied to the terminal
fn relay_drain() {
    let rd = RELAY_RD.load(std::sync::atomic::Ordering::SeqCst);
    if rd < 0 {
        return;
    }
    let mut calm = 0;
    while calm < 3 {
        let mut n: libc::c_int = 0;
        unsafe { libc::ioctl(rd, libc::FIONREAD, &mut n) };
        if n == 0 && !RELAY_BUSY.load(std::sync::atomic::Ordering::SeqCst) {
            calm += 1;
        } else {
            calm = 0;
        }
        std::thread::sleep(std::time::Duration::from_millis(1));
    }
}

struct Logger(Log, u64);      // the log, and a pause (ms) made while each key is being handled (`key_delay_ms`)
impl ConditionalEventHandler for Logger {
    fn handle(&self, evt: &Event, n: RepeatCount, positive: bool, ctx: &EventContext) -> Option<Cmd> {
        if self.1 > 0 {
            // an application whose key handling takes time: what arrives meanwhile (keys, messages) is pending TOGETHER at the next wait
            // (the driver is told that the key is being handled: what it sends now is pending when the handling ends)
            logln(&self.0, "H");
            std::thread::sleep(std::time::Duration::from_millis(self.1));
        }
        if evt.get(0) == Some(&KeyEvent::ctrl('Z')) {
            // the suspend key (C16's rawmode stream counts the suspend episodes of a read)
            logln(&self.0, "Z");
        }
        let mode = match ctx.input_mode() {
            InputMode::Command => "c",
            InputMode::Insert => "i",
            InputMode::Replace => "r",
        };
        logln(
            &self.0,
            &format!(
                "K {} {} {} {} {} {}",
                fmt_str(ctx.line()),
                ctx.pos(),
                mode,
                n,
                positive as u8,
                match ctx.hint_text() {
                    Some(h) => fmt_str(h),
                    None => "none".to_owned(),
                }
            ),
        );
        None
    }
}

#[derive(Default, Clone)]
pub struct Script {
    pub cands: Vec<String>,
    pub hints: Vec<String>,
    pub validator: String, // none | brackets | script
    pub highlight: bool,
    pub helper_panic_at: Option<usize>,
}

pub struct ScriptHelper {
    s: Script,
    hl: MatchingBracketHighlighter,
    calls: Mutex<usize>,
}

impl ScriptHelper {
    fn tick(&self) {
        let mut c = self.calls.lock().unwrap();
        *c += 1;
        if Some(*c) == self.s.helper_panic_at {
            panic!("scripted helper panic");
        }
    }
}

impl Completer for ScriptHelper {
    type Candidate = String;
    // candidates = entries of the scripted list starting with the word before the cursor
    // (the word starts after the last blank before the cursor)
    fn complete(&self, line: &str, pos: usize, _ctx: &Context<'_>) -> rustyline::Result<(usize, Vec<String>)> {
        self.tick();
        let before = &line[..pos];
        let start = before.rfind(' ').map_or(0, |i| i + 1);
        let word = &before[start..];
        if self.s.cands.first().map(String::as_str) == Some("*") {
            // unfiltered script: every other entry is offered whatever the word is
            return Ok((start, self.s.cands[1..].to_vec()));
        }
        Ok((start, self.s.cands.iter().filter(|c| c.starts_with(word)).cloned().collect()))
    }
}
impl Hinter for ScriptHelper {
    type Hint = String;
    // first scripted hint that extends the whole line (cursor at the end, non-empty line)
    fn hint(&self, line: &str, pos: usize, _ctx: &Context<'_>) -> Option<String> {
        if line.is_empty() || pos < line.len() {
            return None;
        }
        self.s
            .hints
            .iter()
            .find(|h| h.starts_with(line) && h.len() > line.len())
            .map(|h| h[line.len()..].to_owned())
    }
}
impl Highlighter for ScriptHelper {
    fn highlight<'l>(&self, line: &'l str, pos: usize) -> Cow<'l, str> {
        if self.s.highlight {
            self.hl.highlight(line, pos)
        } else {
            Cow::Borrowed(line)
        }
    }
    fn highlight_char(&self, line: &str, pos: usize, kind: CmdKind) -> bool {
        self.s.highlight && self.hl.highlight_char(line, pos, kind)
    }
}
impl Validator for ScriptHelper {
    fn validate(&self, ctx: &mut ValidationContext) -> rustyline::Result<ValidationResult> {
        let input = ctx.input();
        match self.s.validator.as_str() {
            "brackets" => rustyline::validate::MatchingBracketValidator::new().validate(ctx),
            "script" | "scriptreq" | "scriptinc" => {
                self.tick();
                // scripted verdicts, decided by what the text contains
                if input.is_empty() && self.s.validator == "scriptreq" {
                    Ok(ValidationResult::Invalid(Some(" <-- required".to_owned())))
                } else if input.is_empty() && self.s.validator == "scriptinc" {
                    Ok(ValidationResult::Incomplete)
                } else if input.contains("#@") {
                    // (an error of another kind: callers must not tell kinds apart)
                    Err(rustyline::error::ReadlineError::Io(std::io::Error::new(
                        std::io::ErrorKind::Interrupted,
                        "scripted validator error (interrupted)",
                    )))
                } else if input.contains("##") {
                    Err(rustyline::error::ReadlineError::Io(std::io::Error::new(
                        std::io::ErrorKind::Other,
                        "scripted validator error",
                    )))
                } else if input.contains("!!") {
                    Ok(ValidationResult::Invalid(Some(" <-- bad".to_owned())))
                } else if input.contains("~~") {
                    Ok(ValidationResult::Invalid(Some(String::new())))
                } else if input.contains("??") {
                    Ok(ValidationResult::Invalid(None))
                } else if input.ends_with('\\') {
                    Ok(ValidationResult::Incomplete)
                } else if input.contains("ok") {
                    Ok(ValidationResult::Valid(Some(" fine".to_owned())))
                } else {
                    Ok(ValidationResult::Valid(None))
                }
            }
            _ => Ok(ValidationResult::Valid(None)),
        }
    }
}
impl Helper for ScriptHelper {}

pub fn main(spec_path: &str) {
    // the driver ends a script by closing the terminal: survive the hang-up to report how the read ended
    unsafe {
        libc::signal(libc::SIGHUP, libc::SIG_IGN);
    }
    let log: Log = Arc::new(Mutex::new(unsafe { File::from_raw_fd(3) }));
    {
        // where a panic came from goes to the observation log (the read itself runs under catch_unwind)
        let log2 = log.clone();
        std::panic::set_hook(Box::new(move |info| {
            let loc = info.location().map(|l| format!("{}:{}", l.file(), l.line())).unwrap_or_default();
            let msg = info
                .payload()
                .downcast_ref::<&str>()
                .map(|s| s.to_string())
                .or_else(|| info.payload().downcast_ref::<String>().cloned())
                .unwrap_or_default();
            if let Ok(mut f) = log2.try_lock() {
                let _ = writeln!(f, "E panic at {} : {}", loc, msg.replace('\n', " "));
                let _ = f.flush();
            }
        }));
    }
    let spec = std::fs::read_to_string(spec_path).expect("spec");
    let mut mode = EditMode::Emacs;
    let mut completion = CompletionType::Circular;
    let mut timeout: Option<u16> = None;
    let mut history: Vec<String> = Vec::new();
    let mut initial: Option<(String, String)> = None;
    let mut prompt = String::new();
    let mut script = Script::default();
    script.validator = "none".into();
    let mut reads = 1usize;
    let mut use_helper = false;
    let mut auto_add = false;
    let mut paste = true;
    let mut signals = false;
    let mut stdout_full = false;
    let mut stdin_ro = false;
    let mut preferterm = false;
    let mut stdout_relay = false;
    let mut stdout_close_after: Option<usize> = None;
    let mut tab_stop: u8 = 8;
    let mut indent_size: u8 = 2;
    let mut prompt_limit: usize = 100;
    let mut show_all = false;
    let mut bell = true;
    let mut max_hist = 100usize;
    let mut printer = false;
    let mut pause = false;
    let mut nprinters = 0usize;
    let mut printers_late = false;
    let mut linger = false;
    let mut key_delay_ms = 0u64;
    let mut between_us = 0u64;      // the application is busy for that long between two reads
    let mut color_mode = rustyline::ColorMode::Enabled;
    let mut binds: Vec<(Vec<KeyEvent>, Cmd)> = Vec::new();
    let mut sqlite: Option<String> = None;
    let mut history2: Vec<String> = Vec::new();
    for l in spec.lines() {
        let t: Vec<&str> = l.split_whitespace().collect();
        if t.is_empty() {
            continue;
        }
        match t[0] {
            "mode" => mode = if t[1] == "vi" { EditMode::Vi } else { EditMode::Emacs },
            "completion" => completion = if t[1] == "list" { CompletionType::List } else { CompletionType::Circular },
            "timeout" => timeout = if t[1] == "none" { None } else { Some(t[1].parse().unwrap()) },
            "history" => history.push(parse_str(t[1])),
            "initial" => initial = Some((parse_str(t[1]), parse_str(t[2]))),
            "prompt" => prompt = parse_str(t[1]),
            "cands" => {
                use_helper = true;
                script.cands = t[1..].iter().map(|s| parse_str(s)).collect()
            }
            "hints" => {
                use_helper = true;
                script.hints = t[1..].iter().map(|s| parse_str(s)).collect()
            }
            "validator" => {
                use_helper = true;
                script.validator = t[1].to_owned()
            }
            "highlight" => {
                use_helper = true;
                script.highlight = t[1] == "1"
            }
            "helper_panic_at" => script.helper_panic_at = Some(t[1].parse().unwrap()),
            "helper" => use_helper = t[1] == "1",
            "reads" => reads = t[1].parse().unwrap(),
            "auto_add" => auto_add = t[1] == "1",
            "paste" => paste = t[1] == "1",
            "signals" => signals = t[1] == "1",
            "max_hist" => max_hist = t[1].parse().unwrap(),
            "printer" => printer = t[1] == "1",
            "pause" => pause = t[1] == "1",
            "printers" => nprinters = t[1].parse().unwrap(),
            "printers_late" => printers_late = t[1] == "1",
            "linger" => linger = t[1] == "1",
            "key_delay_ms" => key_delay_ms = t[1].parse().unwrap(),
            "between_us" => between_us = t[1].parse().unwrap(),
            "stdout_full" => stdout_full = t[1] == "1",
            "stdin_ro" => stdin_ro = t[1] == "1",
            "preferterm" => preferterm = t[1] == "1",
            "stdout_relay" => stdout_relay = t[1] == "1",
            "stdout_close_after" => stdout_close_after = Some(t[1].parse().unwrap()),
            "tab_stop" => tab_stop = t[1].parse().unwrap(),
            "indent_size" => indent_size = t[1].parse().unwrap(),
            "prompt_limit" => prompt_limit = t[1].parse().unwrap(),
            "show_all" => show_all = t[1] == "1",
            "bell" => bell = t[1] == "1",
            "color_mode" => color_mode = match t[1] {
                "disabled" => rustyline::ColorMode::Disabled,
                "forced" => rustyline::ColorMode::Forced,
                _ => rustyline::ColorMode::Enabled,
            },
            "bind" => binds.push((parse_keys(t[1]), parse_cmd(&t[2..]))),
            // an SQLite history at this path: `history` lines are entered by an earlier session (the database is then
            // closed and reopened), `history2` lines by the session the reads run in
            "sqlite" => sqlite = Some(t[1].to_owned()),
            "history2" => history2.push(parse_str(t[1])),
            _ => panic!("spec line {l}"),
        }
    }
    if preferterm {
        // `producer | app` with Behavior::PreferTerm: standard input is a pipe (kept open, nothing ever arrives), the editor opens
        // the controlling terminal itself
        let mut fds = [0i32; 2];
        unsafe {
            libc::pipe(fds.as_mut_ptr());
            libc::dup2(fds[0], 0);
            libc::close(fds[0]);
        }
    }
    if stdin_ro {
        // standard input is the terminal opened READ-ONLY (as with `prog < /dev/tty`): nothing can be written to it
        use std::os::unix::io::IntoRawFd;
        let fd = std::fs::OpenOptions::new().read(true).open("/dev/tty").expect("/dev/tty").into_raw_fd();
        unsafe {
            libc::dup2(fd, 0);
            libc::close(fd);
        }
    }
    if let Some(n) = stdout_close_after {
        // standard output is a pipe whose reader goes away after n bytes (a pager that quits): writes succeed at first and
        // fail later, while the input terminal stays connected
        let mut fds = [0i32; 2];
        unsafe {
            libc::pipe(fds.as_mut_ptr());
            libc::dup2(fds[1], 1);
            libc::close(fds[1]);
        }
        let rd = fds[0];
        std::thread::spawn(move || {
            let mut left = n;
            let mut buf = [0u8; 64];
            while left > 0 {
                let k = unsafe { libc::read(rd, buf.as_mut_ptr() as *mut libc::c_void, left.min(64)) };
                if k <= 0 {
                    break;
                }
                left -= k as usize;
            }
            unsafe { libc::close(rd) };
        });
    }
    if stdout_relay {
        // `app | cat`: standard output is a pipe whose reader copies everything to the terminal. What the terminal receives is
        // the same, but the editor's output is NOT a terminal
        let mut fds = [0i32; 2];
        let tty_out = unsafe { libc::dup(1) };
        unsafe {
            libc::pipe(fds.as_mut_ptr());
            libc::dup2(fds[1], 1);
            libc::close(fds[1]);
        }
        let rd = fds[0];
        RELAY_RD.store(rd, std::sync::atomic::Ordering::SeqCst);
        std::thread::spawn(move || {
            let mut buf = [0u8; 4096];
            loop {
                let k = unsafe { libc::read(rd, buf.as_mut_ptr() as *mut libc::c_void, buf.len()) };
                if k <= 0 {
                    break;
                }
                RELAY_BUSY.store(true, std::sync::atomic::Ordering::SeqCst);
                let mut off = 0usize;
                while off < k as usize {
                    let w = unsafe { libc::write(tty_out, buf[off..].as_ptr() as *const libc::c_void, k as usize - off) };
                    if w <= 0 {
                        break;
                    }
                    off += w as usize;
                }
                RELAY_BUSY.store(false, std::sync::atomic::Ordering::SeqCst);
            }
        });
    }
    if stdout_full {
        // standard output that accepts no byte (/dev/full): every write of the editor fails; standard input stays the terminal
        use std::os::unix::io::IntoRawFd;
        let fd = std::fs::OpenOptions::new().write(true).open("/dev/full").expect("/dev/full").into_raw_fd();
        unsafe {
            libc::dup2(fd, 1);
            libc::close(fd);
        }
    }
    let config = Config::builder()
        .tab_stop(tab_stop)
        .indent_size(indent_size)
        .completion_prompt_limit(prompt_limit)
        .completion_show_all_if_ambiguous(show_all)
        .bell_style(if bell { rustyline::config::BellStyle::Audible } else { rustyline::config::BellStyle::None })
        .edit_mode(mode)
        .color_mode(color_mode)
        .completion_type(completion)
        .keyseq_timeout(timeout)
        .auto_add_history(auto_add)
        .bracketed_paste(paste)
        .enable_signals(signals)
        .max_history_size(max_hist)
        .unwrap()
        .behavior(if preferterm { rustyline::Behavior::PreferTerm } else { rustyline::Behavior::Stdio })
        .build();
    let st = Setup { log: log.clone(), use_helper, script, binds, printer, nprinters, printers_late, linger, reads, initial, prompt, pause, key_delay_ms, between_us };
    if let Some(path) = sqlite {
        let _ = std::fs::remove_file(&path);
        {
            let mut h = match SQLiteHistory::open(config, &path) {
                Ok(h) => h,
                Err(_) => {
                    logln(&log, "R err:init");
                    return;
                }
            };
            for e in &history {
                let _ = h.add(e);
            }
        }
        let h = SQLiteHistory::open(config, &path).expect("reopen");
        match Editor::with_history(config, h) {
            Ok(rl) => drive(rl, st, &history2),
            Err(_) => logln(&log, "R err:init"),
        }
        let _ = std::fs::remove_file(&path);
    } else {
        match Editor::<ScriptHelper, DefaultHistory>::with_config(config) {
            Ok(rl) => drive(rl, st, &history),
            Err(_) => logln(&log, "R err:init"),
        }
    }
}

struct Setup {
    log: Log,
    use_helper: bool,
    script: Script,
    binds: Vec<(Vec<KeyEvent>, Cmd)>,
    printer: bool,
    nprinters: usize,
    printers_late: bool,
    linger: bool,
    reads: usize,
    initial: Option<(String, String)>,
    prompt: String,
    pause: bool,
    key_delay_ms: u64,
    between_us: u64,
}

/// printer threads, told what to print by lines "<thread> <hex text>" on fd 4; each finished print is
/// acknowledged on the log as "P <thread> <hex text> ok|err"
fn spawn_printers<I: History>(rl: &mut Editor<ScriptHelper, I>, nprinters: usize, log: &Log) {
    use rustyline::ExternalPrinter;
    use std::io::BufRead;
    let mut senders = Vec::new();
    for t in 0..nprinters {
        let mut p = rl.create_external_printer().expect("external printer");
        let (tx, rx) = std::sync::mpsc::channel::<String>();
        senders.push(tx);
        let log2 = log.clone();
        std::thread::spawn(move || {
            for msg in rx {
                let r = p.print(parse_str(&msg));
                logln(&log2, &format!("P {} {} {}", t, msg, if r.is_ok() { "ok" } else { "err" }));
            }
        });
    }
    std::thread::spawn(move || {
        let ctl = unsafe { File::from_raw_fd(4) };
        for line in std::io::BufReader::new(ctl).lines() {
            let Ok(line) = line else { break };
            let mut it = line.split_whitespace();
            let (Some(t), Some(m)) = (it.next(), it.next()) else { continue };
            let t: usize = t.parse().unwrap_or(0);
            if let Some(tx) = senders.get(t) {
                let _ = tx.send(m.to_owned());
            }
        }
    });
}

fn drive<I: History>(mut rl: Editor<ScriptHelper, I>, st: Setup, history: &[String]) {
    let Setup { log, use_helper, script, binds, printer, nprinters, printers_late, linger, reads, initial, prompt, pause, key_delay_ms, between_us } = st;
    if use_helper {
        rl.set_helper(Some(ScriptHelper { s: script, hl: MatchingBracketHighlighter::new(), calls: Mutex::new(0) }));
    }
    for h in history {
        let _ = rl.add_history_entry(h.as_str());
    }
    rl.bind_sequence(Event::Any, EventHandler::Conditional(Box::new(Logger(log.clone(), key_delay_ms))));
    for (keys, cmd) in binds {
        rl.bind_sequence(Event::KeySeq(keys), EventHandler::Simple(cmd));
    }
    let mut _printer = None;
    if printer && nprinters == 0 {
        _printer = rl.create_external_printer().ok();
    }
    if printers_late {
        // a printer that is gone before the first read: that read starts with no printer alive
        let p = rl.create_external_printer();
        drop(p);
    }
    if nprinters > 0 && !printers_late {
        spawn_printers(&mut rl, nprinters, &log);
    }
    logln(&log, "S ready");
    for i in 0..reads {
        let r = guarded(|| match (&initial, i) {
            (Some((l, r)), 0) => rl.readline_with_initial(&prompt, (l, r)),
            _ => rl.readline(&prompt),
        });
        let line = match r {
            None => "R panic".to_owned(),
            Some(Ok(l)) => format!("R line:{}", fmt_str(&l)),
            Some(Err(rustyline::error::ReadlineError::Eof)) => "R eof".to_owned(),
            Some(Err(rustyline::error::ReadlineError::Interrupted)) => "R int".to_owned(),
            Some(Err(rustyline::error::ReadlineError::Io(e))) => format!("R err:io:{:?}", e.kind()),
            Some(Err(e)) => {
                logln(&log, &format!("E {:?}", e).replace('\n', " "));
                "R err:other".to_owned()
            }
        };
        logln(&log, &line);
        if i == 0 && printers_late && nprinters > 0 {
            // the printers of this session are created only now, after a read that ran without any
            spawn_printers(&mut rl, nprinters, &log);
        }
        if between_us > 0 {
            std::thread::sleep(std::time::Duration::from_micros(between_us));
        }
        if pause {
            // let the driver look at (and change) the terminal settings between two reads
            relay_drain();
            unsafe {
                libc::raise(libc::SIGSTOP);
            }
        }
        if line == "R eof" && i + 1 < reads {
            // keep reading: the driver decides when to stop
        }
    }
    relay_drain();
    logln(&log, "S done");
    if linger {
        // stay alive after the last read (blocked reading the terminal) so that printers can be used when no read is
        // in progress; the driver's hang-up ends the wait
        use std::io::Read;
        let mut b = [0u8; 1];
        let _ = std::io::stdin().read(&mut b);
    }
}

fn parse_key(t: &str) -> KeyEvent {
    // c:<hex> | C:<hex> (ctrl) | M:<hex> (alt) | name
    if let Some(h) = t.strip_prefix("c:") {
        return KeyEvent::new(char::from_u32(u32::from_str_radix(h, 16).unwrap()).unwrap(), Modifiers::NONE);
    }
    if let Some(h) = t.strip_prefix("C:") {
        return KeyEvent::ctrl(char::from_u32(u32::from_str_radix(h, 16).unwrap()).unwrap());
    }
    if let Some(h) = t.strip_prefix("M:") {
        return KeyEvent::alt(char::from_u32(u32::from_str_radix(h, 16).unwrap()).unwrap());
    }
    match t {
        "F5" => KeyEvent(KeyCode::F(5), Modifiers::NONE),
        "F6" => KeyEvent(KeyCode::F(6), Modifiers::NONE),
        "PageUp" => KeyEvent(KeyCode::PageUp, Modifiers::NONE),
        "PageDown" => KeyEvent(KeyCode::PageDown, Modifiers::NONE),
        other => panic!("key {other}"),
    }
}
fn parse_keys(t: &str) -> Vec<KeyEvent> {
    t.split(',').map(parse_key).collect()
}
fn parse_cmd(t: &[&str]) -> Cmd {
    match t[0] {
        "yankpop" => Cmd::YankPop,
        "accept" => Cmd::AcceptLine,
        "acceptend" => Cmd::AcceptOrInsertLine { accept_in_the_middle: false },
        "newline" => Cmd::Newline,
        "abort" => Cmd::Abort,
        "bol" => Cmd::Move(Movement::BeginningOfLine),
        "upcase" => Cmd::UpcaseWord,
        "undo" => Cmd::Undo(1),
        "insert" => Cmd::Insert(1, parse_str(t[1])),
        "hsb" => Cmd::HistorySearchBackward,
        "hsf" => Cmd::HistorySearchForward,
        "killwl" => Cmd::Kill(Movement::WholeLine),
        "noop" => Cmd::Noop,
        "replaceeol" => Cmd::Replace(Movement::EndOfLine, Some(parse_str(t[1]))),
        "replacewl" => Cmd::Replace(Movement::WholeLine, Some(parse_str(t[1]))),
        "yank" => Cmd::Yank(1, rustyline::Anchor::Before),
        "yank0" => Cmd::Yank(0, rustyline::Anchor::Before),
        other => panic!("cmd {other}"),
    }
}
