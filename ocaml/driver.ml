(* driver: runs the extracted Coq model on the same case files as the Rust
   harness and prints results in the same canonical format. *)
open Model

(* ---------- number conversions ---------- *)
let rec pos_of_int (i : int) : positive =
  if i = 1 then XH
  else if i land 1 = 0 then XO (pos_of_int (i lsr 1))
  else XI (pos_of_int (i lsr 1))
let n_of_int (i : int) : n = if i = 0 then N0 else Npos (pos_of_int i)
let rec int_of_pos (p : positive) : int =
  match p with XH -> 1 | XO q -> 2 * int_of_pos q | XI q -> 2 * int_of_pos q + 1
let int_of_n (x : n) : int = match x with N0 -> 0 | Npos p -> int_of_pos p
let rec nat_of_int (i : int) : nat = if i <= 0 then O else S (nat_of_int (i - 1))
let int_of_nat (x : nat) : int =
  let rec go acc = function O -> acc | S m -> go (acc + 1) m in go 0 x

(* ---------- string encodings (same as harness/src/util.rs) ---------- *)
let split_on c s = if s = "" then [] else String.split_on_char c s
let parse_hexlist tok : n list =
  if tok = "-" then []
  else List.map (fun h -> n_of_int (int_of_string ("0x" ^ h))) (String.split_on_char '.' tok)
let parse_str = parse_hexlist
let parse_bytes = parse_hexlist
let fmt_hexlist (l : n list) : string =
  if l = [] then "-"
  else String.concat "." (List.map (fun c -> Printf.sprintf "%x" (int_of_n c)) l)
let fmt_str = fmt_hexlist
let fmt_bytes = fmt_hexlist
let fmt_strs (l : n list list) : string =
  if l = [] then "_" else String.concat "," (List.map fmt_str l)
let parse_bool t = (t = "1")
let words s = List.filter (fun x -> x <> "") (String.split_on_char ' ' (String.trim s))

(* ---------- Unicode data from the implementation's dump ---------- *)
type rtab = (int * int) array
let in_ranges (t : rtab) (c : int) : bool =
  let lo = ref 0 and hi = ref (Array.length t - 1) and found = ref false in
  while not !found && !lo <= !hi do
    let mid = (!lo + !hi) / 2 in
    let (a, b) = t.(mid) in
    if c < a then hi := mid - 1 else if c > b then lo := mid + 1 else found := true
  done;
  !found

let ranges : (string, rtab) Hashtbl.t = Hashtbl.create 16
let maps : (string * int, int list) Hashtbl.t = Hashtbl.create 4096
let gcats : (int * int * gcat) array ref = ref [||]

let gcat_of_string = function
  | "GC_Any" -> GC_Any | "GC_CR" -> GC_CR | "GC_Control" -> GC_Control
  | "GC_Extend" -> GC_Extend | "GC_Extended_Pictographic" -> GC_ExtPict
  | "GC_InCB_Consonant" -> GC_InCBConsonant | "GC_L" -> GC_L | "GC_LF" -> GC_LF
  | "GC_LV" -> GC_LV | "GC_LVT" -> GC_LVT | "GC_Prepend" -> GC_Prepend
  | "GC_Regional_Indicator" -> GC_RI | "GC_SpacingMark" -> GC_SpacingMark
  | "GC_T" -> GC_T | "GC_V" -> GC_V | "GC_ZWJ" -> GC_ZWJ
  | s -> failwith ("unknown gcat " ^ s)

let load_udata (path : string) : unit =
  let ic = open_in path in
  (try
     while true do
       let line = input_line ic in
       match words line with
       | ["range"; name] -> Hashtbl.replace ranges name [||]
       | ["range"; name; rs] ->
         let l = List.map (fun r ->
             match String.split_on_char '-' r with
             | [a; b] -> (int_of_string ("0x" ^ a), int_of_string ("0x" ^ b))
             | _ -> failwith "range") (String.split_on_char ',' rs) in
         Hashtbl.replace ranges name (Array.of_list l)
       | ["map"; name; c; m] ->
         Hashtbl.replace maps (name, int_of_string ("0x" ^ c))
           (List.map (fun h -> int_of_string ("0x" ^ h)) (String.split_on_char '.' m))
       | "gcat" :: rest ->
         let l = List.map (fun r ->
             match String.split_on_char ':' r with
             | [a; b; g] -> (int_of_string ("0x" ^ a), int_of_string ("0x" ^ b), gcat_of_string g)
             | _ -> failwith "gcat") rest in
         gcats := Array.of_list l
       | [] -> ()
       | _ -> failwith ("udata: bad line " ^ line)
     done
   with End_of_file -> ());
  close_in ic

let rng name = try Hashtbl.find ranges name with Not_found -> [||]
let gcat_lookup (c : int) : gcat =
  let t = !gcats in
  let lo = ref 0 and hi = ref (Array.length t - 1) and res = ref GC_Any in
  let fin = ref false in
  while not !fin && !lo <= !hi do
    let mid = (!lo + !hi) / 2 in
    let (a, b, g) = t.(mid) in
    if c < a then hi := mid - 1 else if c > b then lo := mid + 1 else (res := g; fin := true)
  done;
  !res

let udata () : uData =
  let ws = rng "whitespace" and an = rng "alphanumeric" and al = rng "alphabetic"
  and ct = rng "control" and lo = rng "lowercase" and up = rng "uppercase"
  and w0 = rng "width0" and w2 = rng "width2"
  and ie = rng "incb_extend" and il = rng "incb_linker" in
  let mapping name c =
    let i = int_of_n c in
    match Hashtbl.find_opt maps (name, i) with
    | Some l -> List.map n_of_int l
    | None -> [c] in
  { u_is_whitespace = (fun c -> in_ranges ws (int_of_n c));
    u_is_alphanumeric = (fun c -> in_ranges an (int_of_n c));
    u_is_alphabetic = (fun c -> in_ranges al (int_of_n c));
    u_is_control = (fun c -> in_ranges ct (int_of_n c));
    u_is_lowercase = (fun c -> in_ranges lo (int_of_n c));
    u_is_uppercase = (fun c -> in_ranges up (int_of_n c));
    u_to_upper = mapping "upper";
    u_to_lower = mapping "lower";
    u_width = (fun c -> let i = int_of_n c in
                if in_ranges w0 i then O else if in_ranges w2 i then S (S O) else S O);
    u_gcat = (fun c -> gcat_lookup (int_of_n c));
    u_incb_extend = (fun c -> in_ranges ie (int_of_n c));
    u_incb_linker = (fun c -> in_ranges il (int_of_n c)) }

(* ---------- stream: hist (C09) ---------- *)
let parse_dir t = if t = "f" then Forward else Reverse

let parse_hop (t : string list) : hop =
  match t with
  | ["add"; s] -> HAdd (parse_str s)
  | ["addo"; s] -> HAddOwned (parse_str s)
  | ["setmax"; n] -> HSetMax (nat_of_int (int_of_string n))
  | ["dups"; b] -> HIgnDups (parse_bool b)
  | ["space"; b] -> HIgnSpace (parse_bool b)
  | ["clear"] -> HClear
  | ["get"; i] -> HGet (nat_of_int (int_of_string i))
  | ["search"; s; st; d] -> HSearch (parse_str s, nat_of_int (int_of_string st), parse_dir d)
  | ["sw"; s; st; d] -> HStartsWith (parse_str s, nat_of_int (int_of_string st), parse_dir d)
  | ["len"] -> HLen
  | _ -> failwith ("bad hist op: " ^ String.concat " " t)

let fmt_hout (o : hout) : string =
  match o with
  | OBool b -> if b then "b1" else "b0"
  | OUnit -> "u"
  | OEntry None -> "e:none"
  | OEntry (Some e) -> "e:" ^ fmt_str e
  | OSearch None -> "s:none"
  | OSearch (Some ((i, p), e)) ->
    Printf.sprintf "s:%d,%d,%s" (int_of_nat i) (int_of_nat p) (fmt_str e)
  | ONat n -> Printf.sprintf "n:%d" (int_of_nat n)

let run_hist u line =
  match String.split_on_char ';' line with
  | [] -> ""
  | head :: ops ->
    (match words head with
     | [_kind; max; igs; igd] ->
       let h = hist_new (nat_of_int (int_of_string max)) (parse_bool igs) (parse_bool igd) in
       let ops = List.filter (fun o -> words o <> []) ops in
       let (_, outs) = h_run u h (List.map (fun o -> parse_hop (words o)) ops) in
       String.concat ";" (List.map fmt_hout outs)
     | _ -> failwith "bad hist head")

(* ---------- stream: sqlhist (C20) ---------- *)
let run_sqlhist u line =
  match String.split_on_char ';' line with
  | [] -> ""
  | head :: ops ->
    (match words head with
     | [max; igs; igd] ->
       let h = sql_new (nat_of_int (int_of_string max)) (parse_bool igs) (parse_bool igd) in
       let dir t = if t = "f" then Forward else Reverse in
       let ops = List.filter (fun o -> words o <> []) ops in
       let parse o = match words o with
         | ["add"; s] -> Some (SAdd (parse_str s))
         | ["get"; i; d] -> Some (SGet (nat_of_int (int_of_string i), dir d))
         | ["len"] -> Some SLen
         | ["setmax"; n] -> Some (SSetMax (nat_of_int (int_of_string n)))
         | ["reopen"] | ["load"] -> Some SReopen          (* History::load of the same path: the object starts over on the same tables *)
         | ["reopen2"; igs; igd] -> Some (SReopenCfg (parse_bool igs, parse_bool igd))
         | ["setdups"; b] -> Some (SSetDups (parse_bool b))
         | ["setspace"; b] -> Some (SSetSpace (parse_bool b))
         | ["save"] | ["append"] -> Some SLen            (* save / append to the database's own path change nothing: run as a len whose answer is not printed *)
         | ("search" :: _) | ("sw" :: _) -> None        (* full-text search: not modelled *)
         | _ -> failwith ("bad sqlhist op: " ^ o) in
       let parsed = List.map parse ops in
       let quiet = List.map (fun o -> match words o with ["save"] | ["append"] -> true | _ -> false) ops in
       let (_, outs) = sql_run u h (List.filter_map (fun x -> x) parsed) in
       let fmt = function
         | SoBool b -> if b then "b1" else "b0"
         | SoGet None -> "g:none"
         | SoGet (Some (i, e)) -> Printf.sprintf "g:%d,%s" (int_of_nat i) (fmt_str e)
         | SoNat n -> Printf.sprintf "n:%d" (int_of_nat n)
         | SoUnit -> "u"
         | SoRefused -> "x" in
       let rec merge ps qs os = match ps, qs, os with
         | [], _, _ -> []
         | None :: pr, _ :: qr, _ -> "s:?" :: merge pr qr os
         | Some _ :: pr, q :: qr, o :: orest -> (if q then "u" else fmt o) :: merge pr qr orest
         | _ -> failwith "sqlhist: output count" in
       String.concat ";" (merge parsed quiet outs)
     | _ -> failwith "bad sqlhist head")

(* ---------- stream: fhist (C10/C11/C12) ---------- *)
let parse_fop (tick : bool) (t : string list) : fop =
  let nat s = nat_of_int (int_of_string s) in
  match t with
  | ["new"; i; max; igs; igd] -> FNew (nat i, nat max, parse_bool igs, parse_bool igd)
  | ["add"; i; s] | ["addo"; i; s] -> FAdd (nat i, parse_str s)
  | ["save"; i] -> FSave (nat i, tick)
  | ["append"; i] -> FAppend (nat i, tick)
  | ["load"; i] -> FLoad (nat i)
  | ["setmax"; i; n] -> FSetMax (nat i, nat n)
  | ["clear"; i] -> FClear (nat i)
  | ["put"; b] -> FPut (parse_bytes b, tick)
  | ["rm"] -> FRemove
  | _ -> failwith ("bad fhist op: " ^ String.concat " " t)

let fmt_fobs (o : fobs) : string =
  let r = match o.ob_out with
    | FoUnit -> "unit" | FoBool true -> "true" | FoBool false -> "false"
    | FoIo IoOk -> "ok" | FoIo IoErr -> "err" | FoNoSession -> "nosess" in
  Printf.sprintf "R=%s E=%s F=%s" r (fmt_strs o.ob_entries)
    (match o.ob_file with None -> "none" | Some b -> fmt_bytes b)

(* input line: `<ticks> | op ; op ...` *)
let run_fhist u line =
  match String.index_opt line '|' with
  | None -> failwith "fhist: missing ticks"
  | Some k ->
    let ticks = String.trim (String.sub line 0 k) in
    let rest = String.sub line (k + 1) (String.length line - k - 1) in
    let ops = List.filter (fun o -> words o <> []) (String.split_on_char ';' rest) in
    let fops = List.mapi (fun i o ->
        let tick = i < String.length ticks && ticks.[i] = '1' in
        parse_fop tick (words o)) ops in
    let obs = w_run u w_init fops in
    ticks ^ " | " ^ String.concat " ; " (List.map fmt_fobs obs)

(* ---------- stream: seg ---------- *)
let run_seg u line = fmt_strs (useg u (parse_str (String.trim line)))

(* ---------- stream: direct (C18) ---------- *)
let fmt_dres = function
  | DLine s -> "L:" ^ fmt_str s
  | DEof -> "EOF" | DErr -> "ERR" | DPanic -> "PANIC"

let run_direct u line =
  match words line with
  | [v; bytes] ->
    let v = if String.length v > 1 && v.[String.length v - 1] = 'd' then String.sub v 0 (String.length v - 1) else v in
    (match decode (parse_bytes bytes) with
     | None -> "MODEL-NA-invalid-utf8"
     | Some input ->
       let script_vres s = match script_validate s with
         | VRError -> VError | VRInvalid (Some _) -> VInvalidMsg | VRInvalid None -> VInvalid
         | VRIncomplete -> VIncomplete | VRValid _ -> VValid in
       let vf = if v = "1" then Some bracket_validator else if v = "2" then Some script_vres else None in
       let rs = direct_all (useg u) vf input in
       (* the child stops at the first Eof / panic; an error does not stop it *)
       let rec upto = function
         | [] -> []
         | (DEof as r) :: _ -> [r]
         | (DPanic as r) :: _ -> [r]
         | r :: t -> r :: upto t in
       String.concat " " (List.map fmt_dres (upto rs)))
  | _ -> failwith "bad direct case"

(* ---------- stream: compl (C15) ---------- *)
let parse_layout (tok : string) : dentry list =
  if tok = "_" then [] else begin
    let toks = String.split_on_char ',' tok in
    let roots = ref [] in
    let add_root name isdir =
      if not (List.exists (fun (n, _, _) -> n = name) !roots) then roots := !roots @ [(name, isdir, ref [])] in
    List.iter (fun t ->
        let kind = t.[0] and rest = String.sub t 1 (String.length t - 1) in
        match kind with
        | 'F' -> add_root (parse_str rest) false
        | 'D' | 'S' -> add_root (parse_str rest) true       (* S: the same directory reached through a symbolic link *)
        | 'X' -> ()                                         (* a dangling symbolic link: not an entry any completion offers *)
        | 'G' | 'H' ->
          (match String.split_on_char '|' rest with
           | [p; n] ->
             let p = parse_str p in
             add_root p true;
             let (_, _, ch) = List.find (fun (n, _, _) -> n = p) !roots in
             let nm = parse_str n in
             if not (List.exists (fun (x, _) -> x = nm) !ch) then ch := !ch @ [(nm, kind = 'H')]
           | _ -> failwith "layout")
        | _ -> failwith "layout kind") toks;
    List.map (fun (n, d, ch) -> { d_name = n; d_is_dir = d; d_children = !ch }) !roots
  end

let utf8_compare (a : n list) (b : n list) = compare (List.map int_of_n a) (List.map int_of_n b)

let run_compl _u line =
  match words line with
  | "path" :: layout :: lines ->
    let root = parse_layout layout in
    String.concat " ; " (List.map (fun l ->
        (* `<before>|<after>`: only the text before the cursor takes part (complete_path slices the line at pos) *)
        let l = (match String.index_opt l '|' with Some i -> String.sub l 0 i | None -> l) in
        let (start, cands) = complete_path root (parse_str l) in
        let cands = List.sort (fun (d1, _) (d2, _) -> utf8_compare d1 d2) cands in
        Printf.sprintf "%d %s" (int_of_nat start)
          (if cands = [] then "_" else String.concat "," (List.map (fun (d, r) -> fmt_str d ^ "=" ^ fmt_str r) cands))) lines)
  | "lcp" :: cands ->
    (match longest_common_prefix (List.map parse_str cands) with
     | None -> "none" | Some s -> "some:" ^ fmt_str s)
  | ["unesc"; s] -> fmt_str (unescape (n_of_int 92) (parse_str s))
  | _ -> failwith "bad compl case"

(* ---------- stream: linebuf (C03/C04) ---------- *)
let nat s = nat_of_int (int_of_string s)
let parse_word = function "b" -> WBig | "e" -> WEmacs | _ -> WVi
let parse_at = function "s" -> AtStart | "b" -> AtBeforeEnd | _ -> AtAfterEnd
let parse_cs t =
  match String.split_on_char ':' t with
  | [k; c] -> let c = n_of_int (int_of_string ("0x" ^ c)) in
    (match k with "f" -> CsForward c | "F" -> CsForwardBefore c | "b" -> CsBackward c | _ -> CsBackwardAfter c)
  | _ -> failwith "cs"
let parse_mvt t =
  match String.split_on_char '/' t with
  | ["wl"] -> MWholeLine | ["bol"] -> MBeginningOfLine | ["eol"] -> MEndOfLine
  | ["bw"; n; w] -> MBackwardWord (nat n, parse_word w)
  | ["fw"; n; a; w] -> MForwardWord (nat n, parse_at a, parse_word w)
  | ["cs"; n; c] -> MViCharSearch (nat n, parse_cs c)
  | ["vfp"] -> MViFirstPrint
  | ["bc"; n] -> MBackwardChar (nat n) | ["fc"; n] -> MForwardChar (nat n)
  | ["lu"; n] -> MLineUp (nat n) | ["ld"; n] -> MLineDown (nat n)
  | ["wb"] -> MWholeBuffer | ["bob"] -> MBeginningOfBuffer | ["eob"] -> MEndOfBuffer
  | _ -> failwith ("movement " ^ t)

let parse_lbop (t : string list) : lbop =
  match t with
  | ["ins"; c; n] -> OpIns (n_of_int (int_of_string ("0x" ^ c)), nat n)
  | ["yank"; s; n] -> OpYank (parse_str s, nat n)
  | ["yankpop"; k; s] -> OpYankPop (nat k, parse_str s)
  | ["mb"; n] -> OpMoveBackward (nat n) | ["mf"; n] -> OpMoveForward (nat n)
  | ["bs0"] -> OpBufferStart | ["be"] -> OpBufferEnd | ["home"] -> OpHome | ["end"] -> OpEnd
  | ["eoi"] -> OpIsEndOfInput
  | ["del"; n] -> OpDelete (nat n) | ["bsp"; n] -> OpBackspace (nat n)
  | ["kl"] -> OpKillLine | ["kb"] -> OpKillBuffer | ["dl"] -> OpDiscardLine | ["db"] -> OpDiscardBuffer
  | ["tc"] -> OpTransposeChars
  | ["mpw"; w; n] -> OpPrevWord (parse_word w, nat n)
  | ["dpw"; w; n] -> OpDeletePrevWord (parse_word w, nat n)
  | ["mnw"; a; w; n] -> OpNextWord (parse_at a, parse_word w, nat n)
  | ["mto"; c; n] -> OpMoveTo (parse_cs c, nat n)
  | ["dw"; a; w; n] -> OpDeleteWord (parse_at a, parse_word w, nat n)
  | ["dto"; c; n] -> OpDeleteTo (parse_cs c, nat n)
  | ["ew"; a] -> OpEditWord (match a with "c" -> Capitalize | "l" -> Lowercase | _ -> Uppercase)
  | ["tw"; n] -> OpTransposeWords (nat n)
  | ["repl"; a; b; s] -> OpReplace (nat a, nat b, parse_str s)
  | ["istr"; i; s] -> OpInsertStr (nat i, parse_str s)
  | ["drange"; a; b] -> OpDeleteRange (nat a, nat b)
  | ["copy"; m] -> OpCopy (parse_mvt m)
  | ["kill"; m] -> OpKill (parse_mvt m)
  | ["indent"; m; a; d] -> OpIndent (parse_mvt m, nat a, parse_bool d)
  | ["upd"; s; p] -> OpUpdate (parse_str s, nat p)
  | ["setpos"; p] -> OpSetPos (nat p)
  | ["npos"; n] -> OpNextPos (nat n)
  | _ -> failwith ("bad linebuf op: " ^ String.concat " " t)

let fmt_event = function
  | EInsertChar (i, c) -> Printf.sprintf "ic:%d:%x" (int_of_nat i) (int_of_n c)
  | EInsertStr (i, s) -> Printf.sprintf "is:%d:%s" (int_of_nat i) (fmt_str s)
  | EDelete (i, s, d) -> Printf.sprintf "d:%d:%s:%s" (int_of_nat i) (fmt_str s) (match d with DForward -> "f" | DBackward -> "b")
  | EReplace (i, o, n) -> Printf.sprintf "rp:%d:%s:%s" (int_of_nat i) (fmt_str o) (fmt_str n)
  | EStartKill -> "sk" | EStopKill -> "ek"

let fmt_lbret = function
  | RUnit -> "u"
  | RBool b -> if b then "1" else "0"
  | ROptBool None -> "none" | ROptBool (Some true) -> "some1" | ROptBool (Some false) -> "some0"
  | ROptStr None -> "none" | ROptStr (Some s) -> "some:" ^ fmt_str s
  | ROptNat None -> "none" | ROptNat (Some n) -> Printf.sprintf "some:%d" (int_of_nat n)

let run_linebuf u line =
  match String.split_on_char ';' line with
  | [] -> ""
  | head :: ops ->
    (match words head with
     | [cap; b; p] ->
       let lb0 = { buf = parse_str b; pos = nat p; cap = nat cap; grow = false } in
       let ops = List.filter (fun o -> words o <> []) ops in
       let rs = lb_run u (useg u) (List.map (fun o -> parse_lbop (words o)) ops) lb0 in
       String.concat " ; " (List.map (function
           | None -> "panic"
           | Some ((r, b), ev) ->
             Printf.sprintf "r=%s b=%s p=%d e=%s" (fmt_lbret r) (fmt_str b.buf) (int_of_nat b.pos)
               (if ev = [] then "_" else String.concat "," (List.map fmt_event ev))) rs)
     | _ -> failwith "bad linebuf head")

(* ---------- stream: tty (interactive reads) ---------- *)
let decode_chunk (bytes : int list) : inchar list =
  (* strict UTF-8; an undecodable byte becomes Bad (the read ends there) *)
  let rec go bs acc =
    match bs with
    | [] -> List.rev acc
    | _ ->
      (match decode1 (List.map n_of_int bs) with
       | Some (c, rest) -> go (List.map int_of_n rest) (Ch c :: acc)
       | None -> go (List.tl bs) (Bad :: acc)) in
  go bytes []

let parse_tkey (t : string) : key =
  let m c a sh = { m_ctrl = c; m_alt = a; m_shift = sh } in
  let pre p = String.length t > 2 && String.sub t 0 2 = p in
  let hex () = n_of_int (int_of_string ("0x" ^ String.sub t 2 (String.length t - 2))) in
  if pre "c:" then (KChar (hex ()), m false false false)
  else if pre "C:" then (KChar (hex ()), m true false false)
  else if pre "M:" then (KChar (hex ()), m false true false)
  else match t with
    | "F5" -> (KF (nat_of_int 5), m false false false)
    | "F6" -> (KF (nat_of_int 6), m false false false)
    | "PageUp" -> (KPageUp, m false false false)
    | "PageDown" -> (KPageDown, m false false false)
    | _ -> failwith ("key " ^ t)

let parse_tcmd (t : string list) : cmd =
  match t with
  | ["yankpop"] -> CYankPop | ["accept"] -> CAcceptLine | ["newline"] -> CNewline | ["abort"] -> CAbort
  | ["acceptend"] -> CAcceptOrInsertLine false
  | ["bol"] -> CMove MBeginningOfLine | ["upcase"] -> CUpcaseWord | ["undo"] -> CUndo (nat_of_int 1)
  | ["insert"; s] -> CInsert (nat_of_int 1, parse_str s)
  | ["hsb"] -> CHistorySearchBackward | ["hsf"] -> CHistorySearchForward
  | ["killwl"] -> CKill MWholeLine | ["noop"] -> CNoop
  | ["replaceeol"; s] -> CReplace (MEndOfLine, Some (parse_str s))
  | ["replacewl"; s] -> CReplace (MWholeLine, Some (parse_str s))
  | ["yank"] -> CYank (nat_of_int 1, ABefore)
  | ["yank0"] -> CYank (nat_of_int 0, ABefore)
  | _ -> failwith ("cmd " ^ String.concat " " t)

let fmt_outcome = function
  | OLine s -> "line:" ^ fmt_str s | OEof -> "eof" | OInterrupted -> "int" | OInvalidData -> "invalid"
  | OValidatorError -> "verr" | OHangup -> "hangup" | OPanic -> "panic" | OOutOfFuel -> "MODEL-OUT-OF-FUEL"

let fmt_obs (o : observation) =
  Printf.sprintf "%s %d %s %d %d %s" (fmt_str o.o_line) (int_of_nat o.o_pos)
    (match o.o_mode with IMCommand -> "c" | IMInsert -> "i" | IMReplace -> "r")
    (int_of_nat o.o_n) (if o.o_positive then 1 else 0)
    (match o.o_hint with None -> "none" | Some h -> fmt_str h)

let run_tty u line =
  match String.index_opt line '|' with
  | None -> failwith "tty: missing |"
  | Some k ->
    let head = String.sub line 0 k and rest = String.sub line (k + 1) (String.length line - k - 1) in
    let kv = List.filter_map (fun f ->
        match String.index_opt f '=' with
        | Some i -> Some (String.trim (String.sub f 0 i), String.trim (String.sub f (i + 1) (String.length f - i - 1)))
        | None -> None) (String.split_on_char ';' head) in
    let get k d = try List.assoc k kv with Not_found -> d in
    let strs v = if v = "" || v = "_" then [] else List.map parse_str (String.split_on_char ',' v) in
    let mode = if get "mode" "emacs" = "vi" then Vi else Emacs in
    let ct = if get "completion" "circular" = "list" then CTList else CTCircular in
    let timeout_none = get "timeout" "none" = "none" in
    let cols = nat_of_int (int_of_string (get "cols" "80")) in
    let helper = get "helper" "0" = "1" in
    let vk = match get "validator" "none" with "brackets" -> VKBrackets | "script" -> VKScript | "scriptreq" -> VKScriptReq
                                                     | "scriptinc" -> VKScriptInc | _ -> VKNone in
    let binds = List.filter_map (fun (k, v) ->
        if k = "bind" then
          (match words v with
           | ks :: c -> Some (List.map parse_tkey (String.split_on_char ',' ks), parse_tcmd c)
           | _ -> None)
        else None) kv in
    let cfg = mk_config mode ct timeout_none cols helper (strs (get "cands" "")) (strs (get "hints" "")) vk binds in
    (* Config settings other than the defaults mk_config fixes *)
    let cfg = { cfg with c_tab_stop = nat_of_int (int_of_string (get "tab_stop" "8"));
                         c_indent_size = nat_of_int (int_of_string (get "indent_size" "2"));
                         c_prompt_limit = nat_of_int (int_of_string (get "prompt_limit" "100"));
                         c_show_all = (get "show_all" "0" = "1");
                         c_bell = (get "bell" "1" = "1") } in
    let prompt = parse_str (get "prompt" "-") in
    let initial = match get "initial" "" with
      | "" -> None
      | v -> (match String.split_on_char ',' v with [l; r] -> Some (parse_str l, parse_str r) | _ -> None) in
    let hist = strs (get "hist" "") in
    let reads = nat_of_int (int_of_string (get "reads" "1")) in
    let chunks = List.map (fun c ->
        if String.length c > 2 && String.sub c 0 2 = "P:" then
          [Print (parse_str (String.sub c 2 (String.length c - 2)))]   (* a message printed while the read waits here *)
        else decode_chunk (List.map int_of_n (parse_bytes c))) (words rest) in
    let rs = run_reads u cfg prompt initial hist (kr_new (nat_of_int 60)) { in_cur = []; in_rest = chunks } reads in
    String.concat " ## " (List.map (fun r ->
        Printf.sprintf "O=%s K=%s W=%s" (fmt_outcome r.rr_outcome)
          (if r.rr_obs = [] then "_" else String.concat ";" (List.map fmt_obs r.rr_obs))
          (fmt_str (List.concat r.rr_out))) rs)

(* ---------- stream: rawsteps (C16) ---------- *)
(* case: `<paste 0|1> <suspend episodes> <ok|fail>`: one read ending in a line; answer: the paste switches the terminal saw
   (h = on, l = off) and whether the settings are those found *)
let run_rawsteps _u line =
  match words line with
  | [paste; s; w] ->
    let n = int_of_string s in
    let rec acts k = if k = 0 then [AWrite] else AWrite :: ASuspend (fun x -> x) :: acts (k - 1) in
    let oracle = if w = "ok" then [] else List.init 64 (fun _ -> false) in
    let t0 = { t_tio = nat_of_int 7; t_out = [] } in
    let ((t1, _), _) = read_steps (fun x -> S (S x)) (paste = "1") (acts n) XLine t0 oracle in
    Printf.sprintf "%s %s"
      (match switches t1.t_out with [] -> "-" | l -> String.concat "" (List.map (fun b -> if b then "h" else "l") l))
      (if int_of_nat t1.t_tio = 7 then "restored" else "CHANGED")
  | _ -> failwith "bad rawsteps case"

(* ---------- main ---------- *)
let () =
  let stream = Sys.argv.(1) in
  let udata_path = Sys.argv.(2) in
  let ic = if Array.length Sys.argv > 3 then open_in Sys.argv.(3) else stdin in
  load_udata udata_path;
  let u = udata () in
  let f = match stream with
    | "hist" -> run_hist u
    | "fhist" -> run_fhist u
    | "sqlhist" -> run_sqlhist u
    | "seg" -> run_seg u
    | "direct" -> run_direct u
    | "compl" -> run_compl u
    | "linebuf" -> run_linebuf u
    | "tty" -> run_tty u
    | "rawsteps" -> run_rawsteps u
    | s -> failwith ("unknown stream " ^ s) in
  (try
     while true do
       let line = input_line ic in
       if String.trim line <> "" then begin
         (try print_string (f line) with
          | Stack_overflow -> print_string "MODEL-STACK-OVERFLOW"
          | Failure m -> print_string ("MODEL-FAILURE " ^ m));
         print_newline ()
       end
     done
   with End_of_file -> ())
